//! C08 — truth maintenance keeps exactly the facts that still have support.
//!
//! State monitor over `IncrementalEngine` + its `TruthMaintenanceSystem`: a history of explicit
//! insertions, logical insertions with premises, additional justifications and retractions is run
//! against the real engine; after EVERY operation the presence of every fact issued so far
//! (`working_memory().get(handle)`) is compared with an independent reference support model, and
//! the TMS's own view (`is_logical`, `is_explicit`, `has_valid_justification`) is compared with
//! working memory.
//!
//! Reference model (from the statement): explicit facts are present until retracted explicitly;
//! a logical fact is present <=> it was never retracted explicitly AND at least one of its
//! justifications has all its premises present. Because presence never comes back, the state
//! after `retract(h)` is obtained from the state before by removing h and then, repeatedly, every
//! logical fact none of whose justifications has all premises present ("every fact it leaves
//! without support"), and nothing else. With cyclic support (A justified by B and B by A) the
//! statement's invariant has two solutions; both are tracked — the literal one above (mutual
//! support counts) and the well-founded one (support must be grounded in explicit facts) — and a
//! history is accepted as long as the engine follows one of them consistently.
//! Proviso of the quantifier, enforced on generated and shrunk histories: every premise is live
//! when its justification is recorded (and justifications are only added to live logical facts).

use rre_verif::*;
use rust_rule_engine::rete::{
    AlphaNode, FactHandle, FactValue, IncrementalEngine, ReteUlNode, TypedFacts, TypedReteUlRule,
};
use std::collections::BTreeSet;
use std::sync::Arc;

const MAX_NAMES: usize = 32;

// ------------------------------------------------------------------------------------------
// case
// ------------------------------------------------------------------------------------------

#[derive(Clone, Debug, PartialEq, Eq, Hash)]
enum Op {
    /// `insert_explicit` (or plain `insert` when `plain`), creating fact `f`
    Explicit { f: u8, plain: bool },
    /// `insert_logical(.., premises)`, creating fact `f`
    Logical { f: u8, premises: Vec<u8> },
    /// `tms_mut().add_logical_justification(f, .., premises)` on an existing live logical fact
    Justify { f: u8, premises: Vec<u8> },
    /// `retract(f)`
    Retract { f: u8 },
    /// `retract(h)` of a handle working memory has not issued yet (the `ahead`-th next one): must
    /// fail and leave no trace, also not for the fact that later receives that handle
    RetractUnissued { ahead: u8 },
}

#[derive(Clone, Debug, PartialEq, Eq, Hash)]
struct Case {
    ops: Vec<Op>,
    /// register one no-op rule per fact type so that every insert/retract/cascade also runs the
    /// engine's incremental re-propagation
    watcher_rule: bool,
    /// source-rule names given to insert_logical / add_logical_justification: 0 = a different name
    /// per op, 1 = one name for all, 2 = two names alternating by op index
    rule_names: u8,
    /// premises are handed over as text keys `Type.tag=<value>` and turned into handles by
    /// `IncrementalEngine::resolve_premise_keys` (the path the backward-chaining inserter uses)
    premises_by_key: bool,
}

fn rule_name(c: &Case, i: usize) -> String {
    match c.rule_names {
        1 => "R".to_string(),
        2 => format!("R{}", i % 2),
        _ => format!("rule{}", i),
    }
}

impl Case {
    fn to_json(&self) -> Json {
        json!({
            "watcher_rule": self.watcher_rule,
            "rule_names": self.rule_names,
            "premises_by_key": self.premises_by_key,
            "ops": self.ops.iter().map(|o| match o {
                Op::Explicit { f, plain } => json!({"op": if *plain { "insert" } else { "insert_explicit" }, "fact": f}),
                Op::Logical { f, premises } => json!({"op": "insert_logical", "fact": f, "premises": premises}),
                Op::Justify { f, premises } => json!({"op": "add_logical_justification", "fact": f, "premises": premises}),
                Op::Retract { f } => json!({"op": "retract", "fact": f}),
                Op::RetractUnissued { ahead } => json!({"op": "retract_unissued_handle", "fact": 0, "ahead": ahead}),
            }).collect::<Vec<_>>(),
        })
    }
    fn from_json(j: &Json) -> Option<Case> {
        let mut ops = Vec::new();
        for o in j["ops"].as_array()? {
            let f = o["fact"].as_u64()?;
            if f as usize >= MAX_NAMES {
                return None;
            }
            let f = f as u8;
            let prem = || -> Option<Vec<u8>> {
                o["premises"]
                    .as_array()?
                    .iter()
                    .map(|v| v.as_u64().filter(|x| (*x as usize) < MAX_NAMES).map(|x| x as u8))
                    .collect()
            };
            ops.push(match o["op"].as_str()? {
                "insert" => Op::Explicit { f, plain: true },
                "insert_explicit" => Op::Explicit { f, plain: false },
                "insert_logical" => Op::Logical { f, premises: prem()? },
                "add_logical_justification" => Op::Justify { f, premises: prem()? },
                "retract" => Op::Retract { f },
                "retract_unissued_handle" => Op::RetractUnissued { ahead: o["ahead"].as_u64().unwrap_or(0).min(8) as u8 },
                _ => return None,
            });
        }
        Some(Case { ops, watcher_rule: j["watcher_rule"].as_bool().unwrap_or(false), rule_names: j["rule_names"].as_u64().unwrap_or(0).min(2) as u8, premises_by_key: j["premises_by_key"].as_bool().unwrap_or(false) })
    }
}

fn op_text(o: &Op) -> String {
    match o {
        Op::Explicit { f, plain } => format!("{}(f{})", if *plain { "insert" } else { "insert_explicit" }, f),
        Op::Logical { f, premises } => format!("insert_logical(f{}, premises {:?})", f, premises),
        Op::Justify { f, premises } => format!("add_logical_justification(f{}, premises {:?})", f, premises),
        Op::Retract { f } => format!("retract(f{})", f),
        Op::RetractUnissued { ahead } => format!("retract(unissued handle, next+{})", ahead),
    }
}

// ------------------------------------------------------------------------------------------
// reference support model
// ------------------------------------------------------------------------------------------

#[derive(Clone, Copy, Debug, PartialEq, Eq)]
enum Kind {
    Explicit,
    Logical,
}

#[derive(Clone, Debug)]
struct MFact {
    kind: Kind,
    justs: Vec<Vec<u8>>,
    explicitly_retracted: bool,
}

#[derive(Clone, Debug)]
struct Model {
    facts: Vec<Option<MFact>>,
    /// literal reading: a justification counts while all its premises are present
    present: Vec<bool>,
    /// well-founded reading (None once the engine is known to follow the literal one, or once the
    /// two readings disagree about the liveness of something a later op relies on)
    present_wf: Option<Vec<bool>>,
}

#[derive(Clone, Debug, Default)]
struct StepInfo {
    /// facts removed by this op in the literal reading, other than the retracted one
    cascaded: Vec<u8>,
    /// logical facts that lost at least one justification in this op but stay present
    survived_on_other_justification: u64,
    retracted_dead: bool,
}

impl Model {
    fn new() -> Self {
        Model { facts: vec![None; MAX_NAMES], present: vec![false; MAX_NAMES], present_wf: Some(vec![false; MAX_NAMES]) }
    }
    fn issued(&self) -> impl Iterator<Item = u8> + '_ {
        (0..MAX_NAMES as u8).filter(|f| self.facts[*f as usize].is_some())
    }
    fn live(&self) -> Vec<u8> {
        (0..MAX_NAMES as u8).filter(|f| self.present[*f as usize]).collect()
    }
    fn supported(&self, f: u8, present: &[bool]) -> bool {
        let mf = self.facts[f as usize].as_ref().unwrap();
        mf.justs.iter().any(|j| j.iter().all(|p| present[*p as usize]))
    }
    /// Err = ill-formed history (breaks the quantifier's proviso or names an unknown fact)
    fn apply(&mut self, op: &Op) -> Result<StepInfo, String> {
        let mut info = StepInfo::default();
        match op {
            Op::Explicit { f, .. } => {
                if self.facts[*f as usize].is_some() {
                    return Err(format!("fact name f{} is already in use", f));
                }
                self.facts[*f as usize] = Some(MFact { kind: Kind::Explicit, justs: vec![], explicitly_retracted: false });
                self.present[*f as usize] = true;
                if let Some(w) = self.present_wf.as_mut() {
                    w[*f as usize] = true;
                }
            }
            Op::Logical { f, premises } => {
                if self.facts[*f as usize].is_some() {
                    return Err(format!("fact name f{} is already in use", f));
                }
                for p in premises {
                    if !self.present[*p as usize] {
                        return Err(format!("premise f{} of insert_logical(f{}) is not live", p, f));
                    }
                }
                self.drop_wf_if_it_disagrees_on(premises);
                self.facts[*f as usize] = Some(MFact { kind: Kind::Logical, justs: vec![premises.clone()], explicitly_retracted: false });
                self.present[*f as usize] = true;
                if let Some(w) = self.present_wf.as_mut() {
                    w[*f as usize] = true;
                }
            }
            Op::Justify { f, premises } => {
                match self.facts[*f as usize].as_ref() {
                    Some(mf) if mf.kind == Kind::Logical && self.present[*f as usize] => {}
                    _ => return Err(format!("add_logical_justification target f{} is not a live logical fact", f)),
                }
                for p in premises {
                    if !self.present[*p as usize] {
                        return Err(format!("premise f{} of add_logical_justification(f{}) is not live", p, f));
                    }
                }
                let mut touched = premises.clone();
                touched.push(*f);
                self.drop_wf_if_it_disagrees_on(&touched);
                self.facts[*f as usize].as_mut().unwrap().justs.push(premises.clone());
            }
            Op::RetractUnissued { .. } => {
                // nothing is known under that handle: nothing may change, now or later
            }
            Op::Retract { f } => {
                if self.facts[*f as usize].is_none() {
                    return Err(format!("retract of unknown fact f{}", f));
                }
                if !self.present[*f as usize] {
                    // retracting something that is already gone: nothing may change
                    info.retracted_dead = true;
                    return Ok(info);
                }
                self.drop_wf_if_it_disagrees_on(&[*f]);
                self.facts[*f as usize].as_mut().unwrap().explicitly_retracted = true;
                // literal reading: cascade
                let before = self.present.clone();
                self.present[*f as usize] = false;
                loop {
                    let mut changed = false;
                    for g in 0..MAX_NAMES as u8 {
                        if self.present[g as usize]
                            && self.facts[g as usize].as_ref().unwrap().kind == Kind::Logical
                            && !self.supported(g, &self.present)
                        {
                            self.present[g as usize] = false;
                            info.cascaded.push(g);
                            changed = true;
                        }
                    }
                    if !changed {
                        break;
                    }
                }
                for g in 0..MAX_NAMES as u8 {
                    if self.present[g as usize] {
                        let mf = self.facts[g as usize].as_ref().unwrap();
                        if mf.kind == Kind::Logical
                            && mf.justs.iter().any(|j| j.iter().all(|p| before[*p as usize]) && !j.iter().all(|p| self.present[*p as usize]))
                        {
                            info.survived_on_other_justification += 1;
                        }
                    }
                }
                // well-founded reading: least fixpoint from the explicit facts
                if let Some(w) = self.present_wf.clone() {
                    let mut s = vec![false; MAX_NAMES];
                    for g in 0..MAX_NAMES {
                        if w[g] && g != *f as usize && self.facts[g].as_ref().unwrap().kind == Kind::Explicit {
                            s[g] = true;
                        }
                    }
                    loop {
                        let mut changed = false;
                        for g in 0..MAX_NAMES as u8 {
                            if !s[g as usize]
                                && w[g as usize]
                                && g != *f
                                && self.facts[g as usize].as_ref().unwrap().kind == Kind::Logical
                                && self.supported(g, &s)
                            {
                                s[g as usize] = true;
                                changed = true;
                            }
                        }
                        if !changed {
                            break;
                        }
                    }
                    self.present_wf = Some(s);
                }
            }
        }
        Ok(info)
    }
    /// The history was generated under the literal reading; once a later op relies on the
    /// liveness of a fact on which the two readings disagree, the well-founded reading no longer
    /// describes a history that respects the proviso and is dropped.
    fn drop_wf_if_it_disagrees_on(&mut self, facts: &[u8]) {
        if let Some(w) = &self.present_wf {
            if facts.iter().any(|p| w[*p as usize] != self.present[*p as usize]) {
                self.present_wf = None;
            }
        }
    }
    fn readings_differ(&self) -> bool {
        matches!(&self.present_wf, Some(w) if *w != self.present)
    }
}

// ------------------------------------------------------------------------------------------
// running one case against the real engine
// ------------------------------------------------------------------------------------------

#[derive(Default, Clone)]
struct Obs {
    ops: u64,
    retractions: u64,
    cascaded_facts: u64,
    max_cascade: u64,
    survived_on_other_justification: u64,
    retract_of_dead_fact: u64,
    retract_of_unissued_handle: u64,
    retract_live_returned_err: u64,
    histories_where_readings_differ: u64,
    followed_wellfounded_reading: u64,
    comparisons: u64,
    retract_explicit: u64,
    retract_derived: u64,
}

#[derive(Debug, Clone)]
struct Fail {
    /// index of the op after which the violation was observed
    step: usize,
    clause: String,
    cause: String,
    detail: String,
}

enum Outcome {
    Held,
    IllFormed(String),
    Violated(Fail),
}

fn watcher(fact_type: &str) -> TypedReteUlRule {
    TypedReteUlRule {
        name: format!("watch_{}", fact_type),
        node: ReteUlNode::UlAlpha(AlphaNode {
            field: format!("{}.id", fact_type),
            operator: ">=".to_string(),
            value: "0".to_string(),
        }),
        priority: 0,
        no_loop: true,
        action: Arc::new(|_f, _r| {}),
    }
}

fn fact_type(f: u8) -> String {
    format!("F{}", f % 2)
}

/// every fact carries a unique text `tag`; some of the texts contain `=` and other key syntax
fn fact_tag(f: u8) -> String {
    const TAGS: [&str; 8] = ["plain", "k=v", "https://x.org/cb?state=4&y=2", "a==b", "=lead", "trail=", "dotted.name=1", "sp ace"];
    format!("{}#{}", TAGS[f as usize % TAGS.len()], f)
}

fn fact_data(f: u8) -> TypedFacts {
    let mut d = TypedFacts::new();
    d.set("id", FactValue::Integer(f as i64));
    d.set("tag", FactValue::String(fact_tag(f)));
    d
}

fn set_text(v: &[bool]) -> String {
    format!("{:?}", (0..v.len()).filter(|i| v[*i]).collect::<Vec<_>>())
}

fn run_case(c: &Case, mut trace: Option<&mut Vec<String>>) -> (Outcome, Obs) {
    let mut eng = IncrementalEngine::new();
    if c.watcher_rule {
        eng.add_rule(watcher("F0"), vec!["F0".to_string()]);
        eng.add_rule(watcher("F1"), vec!["F1".to_string()]);
    }
    let mut m = Model::new();
    let mut handles: Vec<Option<FactHandle>> = vec![None; MAX_NAMES];
    let mut obs = Obs::default();
    let mut differed = false;

    for (i, op) in c.ops.iter().enumerate() {
        let before = m.present.clone();
        let info = match m.apply(op) {
            Ok(x) => x,
            Err(e) => return (Outcome::IllFormed(format!("op #{}: {}", i, e)), obs),
        };
        obs.ops += 1;
        let direct = |ps: &Vec<u8>| -> Vec<FactHandle> { ps.iter().map(|p| handles[*p as usize].unwrap()).collect() };
        // with `premises_by_key` the handles come from the engine's own key resolution; they must be
        // the handles of the facts that carry those values (every premise is live, every tag unique)
        let mut key_mismatch: Option<String> = None;
        let mut prem = |ps: &Vec<u8>, eng: &IncrementalEngine| -> Vec<FactHandle> {
            let want = direct(ps);
            if !c.premises_by_key {
                return want;
            }
            let keys: Vec<String> = ps.iter().map(|p| format!("{}.tag={}", fact_type(*p), fact_tag(*p))).collect();
            let got = eng.resolve_premise_keys(keys.clone());
            if got != want && key_mismatch.is_none() {
                key_mismatch = Some(format!("resolve_premise_keys({:?}) = {:?}, the live facts carrying those values have handles {:?}", keys, got, want));
            }
            got
        };
        let mut retract_result: Option<bool> = None;
        match op {
            Op::Explicit { f, plain } => {
                let h = if *plain {
                    eng.insert(fact_type(*f), fact_data(*f))
                } else {
                    eng.insert_explicit(fact_type(*f), fact_data(*f))
                };
                if handles.iter().flatten().any(|x| *x == h) {
                    return (Outcome::Violated(Fail {
                        step: i,
                        clause: "handle-fresh".into(),
                        cause: "handle-reused".into(),
                        detail: format!("op #{} {}: returned handle {} was already issued", i, op_text(op), h),
                    }), obs);
                }
                handles[*f as usize] = Some(h);
            }
            Op::Logical { f, premises } => {
                let ps = prem(premises, &eng);
                let h = eng.insert_logical(fact_type(*f), fact_data(*f), rule_name(c, i), ps);
                if handles.iter().flatten().any(|x| *x == h) {
                    return (Outcome::Violated(Fail {
                        step: i,
                        clause: "handle-fresh".into(),
                        cause: "handle-reused".into(),
                        detail: format!("op #{} {}: returned handle {} was already issued", i, op_text(op), h),
                    }), obs);
                }
                handles[*f as usize] = Some(h);
            }
            Op::Justify { f, premises } => {
                let ps = prem(premises, &eng);
                eng.tms_mut().add_logical_justification(handles[*f as usize].unwrap(), rule_name(c, i), ps);
            }
            Op::RetractUnissued { ahead } => {
                // handles are issued in sequence; the next ones are max issued + 1, + 2, ...
                let next = handles.iter().flatten().map(|h| h.id()).max().unwrap_or(0) + 1 + *ahead as u64;
                let r = eng.retract(FactHandle::new(next));
                retract_result = Some(r.is_ok());
                obs.retract_of_unissued_handle += 1;
                if r.is_ok() {
                    return (Outcome::Violated(Fail {
                        step: i,
                        clause: "retract-unknown-handle".into(),
                        cause: "returned-ok".into(),
                        detail: format!("op #{} {}: retract of a handle that was never issued returned Ok", i, op_text(op)),
                    }), obs);
                }
            }
            Op::Retract { f } => {
                obs.retractions += 1;
                let r = eng.retract(handles[*f as usize].unwrap());
                retract_result = Some(r.is_ok());
                if info.retracted_dead {
                    obs.retract_of_dead_fact += 1;
                } else {
                    if r.is_err() {
                        obs.retract_live_returned_err += 1;
                    }
                    match m.facts[*f as usize].as_ref().unwrap().kind {
                        Kind::Explicit => obs.retract_explicit += 1,
                        Kind::Logical => obs.retract_derived += 1,
                    }
                }
            }
        }
        if let Some(d) = key_mismatch.take() {
            return (Outcome::Violated(Fail { step: i, clause: "premise-keys".into(), cause: "key-does-not-resolve-to-the-fact-carrying-the-value".into(), detail: format!("op #{} {}: {}", i, op_text(op), d) }), obs);
        }
        obs.cascaded_facts += info.cascaded.len() as u64;
        obs.max_cascade = obs.max_cascade.max(info.cascaded.len() as u64);
        obs.survived_on_other_justification += info.survived_on_other_justification;

        // ---- observe
        let mut seen = vec![false; MAX_NAMES];
        for f in m.issued() {
            seen[f as usize] = eng.working_memory().get(&handles[f as usize].unwrap()).is_some();
        }
        obs.comparisons += 1;
        if let Some(t) = trace.as_deref_mut() {
            t.push(format!(
                "  #{} {:<48} expected present {}{} | observed {}{}",
                i,
                op_text(op),
                set_text(&m.present),
                match &m.present_wf {
                    Some(w) if *w != m.present => format!(" (well-founded reading: {})", set_text(w)),
                    _ => String::new(),
                },
                set_text(&seen),
                match retract_result { Some(ok) => format!(" | retract returned {}", if ok { "Ok" } else { "Err" }), None => String::new() }
            ));
        }
        if m.readings_differ() && !differed {
            differed = true;
            obs.histories_where_readings_differ += 1;
        }
        if seen != m.present {
            if let Some(w) = &m.present_wf {
                if seen == *w {
                    // the engine follows the well-founded reading; the rest of the history was
                    // generated under the other reading, so judging stops here
                    obs.followed_wellfounded_reading += 1;
                    return (Outcome::Held, obs);
                }
            }
            return (Outcome::Violated(explain_presence(&m, &before, &seen, op, i)), obs);
        } else if m.readings_differ() {
            // the engine follows the literal reading from here on
            m.present_wf = None;
        }

        // ---- the TMS's own view must agree with working memory
        for f in m.issued() {
            let h = handles[f as usize].unwrap();
            let mf = m.facts[f as usize].as_ref().unwrap();
            let hv = eng.tms().has_valid_justification(h);
            if seen[f as usize] {
                if !hv {
                    return (Outcome::Violated(Fail {
                        step: i,
                        clause: "tms-view".into(),
                        cause: "present-fact-without-valid-justification".into(),
                        detail: format!("after op #{} {}: f{} is present in working memory but tms().has_valid_justification is false", i, op_text(op), f),
                    }), obs);
                }
                let (il, ie) = (eng.tms().is_logical(h), eng.tms().is_explicit(h));
                if il != (mf.kind == Kind::Logical) || ie != (mf.kind == Kind::Explicit) {
                    return (Outcome::Violated(Fail {
                        step: i,
                        clause: "tms-view".into(),
                        cause: "kind-flags-of-present-fact".into(),
                        detail: format!("after op #{} {}: present fact f{} was inserted as {:?} but is_logical={} is_explicit={}", i, op_text(op), f, mf.kind, il, ie),
                    }), obs);
                }
            } else if mf.kind == Kind::Logical && !mf.explicitly_retracted && hv {
                return (Outcome::Violated(Fail {
                    step: i,
                    clause: "tms-view".into(),
                    cause: "cascaded-fact-still-has-valid-justification".into(),
                    detail: format!("after op #{} {}: f{} was removed for lack of support, yet tms().has_valid_justification is true", i, op_text(op), f),
                }), obs);
            }
        }
    }
    (Outcome::Held, obs)
}

/// Which clause is refuted and why (cause predicates computed from the model and the witness).
fn explain_presence(m: &Model, before: &[bool], seen: &[bool], op: &Op, i: usize) -> Fail {
    let retracted: Option<u8> = match op {
        Op::Retract { f } => Some(*f),
        _ => None,
    };
    let head = format!(
        "after op #{} {}: present facts observed {} but the statement gives {}",
        i,
        op_text(op),
        set_text(seen),
        set_text(&m.present)
    );
    // 1. the retracted fact itself is still there
    if let Some(r) = retracted {
        if before[r as usize] && seen[r as usize] {
            let k = m.facts[r as usize].as_ref().unwrap().kind;
            return Fail {
                step: i,
                clause: "retracted-fact-removed".into(),
                cause: format!("{:?}-fact-still-present", k).to_lowercase(),
                detail: format!("{}; f{} was retracted explicitly and is still present", head, r),
            };
        }
    }
    // 2. a fact is present that should not be
    for f in m.issued() {
        if seen[f as usize] && !m.present[f as usize] {
            let mf = m.facts[f as usize].as_ref().unwrap();
            if !before[f as usize] {
                return Fail {
                    step: i,
                    clause: "removed-fact-stays-removed".into(),
                    cause: "absent-fact-reappeared".into(),
                    detail: format!("{}; f{} was absent before the call", head, f),
                };
            }
            // cause predicates (explicit tests on the witness): did the fact lose its support
            // because the retracted fact itself is a premise of every justification (then: as
            // first premise everywhere, or somewhere in a later position), or only because other
            // facts went away in the cascade?
            let direct = retracted.map(|r| mf.justs.iter().all(|j| j.contains(&r))).unwrap_or(false);
            let first_everywhere = retracted.map(|r| mf.justs.iter().all(|j| j.first() == Some(&r))).unwrap_or(false);
            let how = if direct && first_everywhere {
                "retracted-fact-is-first-premise-of-every-justification"
            } else if direct {
                "retracted-fact-is-a-later-premise"
            } else {
                "premise-removed-by-cascade"
            };
            return Fail {
                step: i,
                clause: "unsupported-fact-kept".into(),
                cause: how.into(),
                detail: format!(
                    "{}; logical fact f{} has justifications {:?}, none of which has all premises present, and is still present",
                    head, f, mf.justs
                ),
            };
        }
    }
    // 3. a fact is missing that should be there
    for f in m.issued() {
        if !seen[f as usize] && m.present[f as usize] {
            let mf = m.facts[f as usize].as_ref().unwrap();
            if mf.kind == Kind::Explicit {
                return Fail {
                    step: i,
                    clause: "explicit-fact-only-retracted-explicitly".into(),
                    cause: if matches!(op, Op::Retract { .. }) { "removed-by-retraction-of-another-fact" } else { "removed-by-an-insertion" }.into(),
                    detail: format!("{}; explicit fact f{} disappeared without being retracted", head, f),
                };
            }
            let in_cycle_only = matches!(&m.present_wf, Some(w) if !w[f as usize]);
            let lost_one = mf.justs.iter().any(|j| j.iter().all(|p| before[*p as usize]) && !j.iter().all(|p| m.present[*p as usize]));
            let cause = if !matches!(op, Op::Retract { .. }) {
                "removed-by-an-insertion"
            } else if in_cycle_only {
                "cyclic-support-removed-inconsistently"
            } else if lost_one {
                "another-justification-survives"
            } else {
                "no-justification-touched-by-this-retraction"
            };
            return Fail {
                step: i,
                clause: "supported-fact-removed".into(),
                cause: cause.into(),
                detail: format!(
                    "{}; logical fact f{} has justifications {:?} of which at least one has all premises present, and was removed",
                    head, f, mf.justs
                ),
            };
        }
    }
    Fail { step: i, clause: "presence".into(), cause: "unexplained".into(), detail: head }
}

fn to_violation(c: &Case, clause: &str, cause: &str, detail: &str) -> Violation {
    Violation {
        clause: clause.to_string(),
        sig: format!("C08|{}|{}", clause, cause),
        detail: detail.to_string(),
        case: c.to_json(),
    }
}

fn fails_clause(c: &Case, clause: &str) -> bool {
    match pan::catch(|| run_case(c, None)) {
        Ok((Outcome::Violated(f), _)) => f.clause == clause,
        Ok(_) => false,
        Err(_) => clause == "no-panic",
    }
}

/// Delta-debug: drop ops, drop whole facts (their creation, every op on them, their membership in
/// premise lists), drop single premises, drop the watcher rule — keeping the same clause failing
/// and the history well-formed.
fn shrink(c: &Case, clause: &str) -> Case {
    let mut cur = c.clone();
    loop {
        let before = cur.clone();
        let ops = {
            let base = cur.clone();
            let mut f = |ops: &[Op]| fails_clause(&Case { ops: ops.to_vec(), ..base.clone() }, clause);
            shrink_list(&cur.ops, &mut f)
        };
        cur.ops = ops;
        // drop whole facts
        let names: BTreeSet<u8> = cur
            .ops
            .iter()
            .filter_map(|o| match o {
                Op::Explicit { f, .. } | Op::Logical { f, .. } => Some(*f),
                _ => None,
            })
            .collect();
        for name in names {
            let mut ops2: Vec<Op> = Vec::new();
            for o in &cur.ops {
                match o {
                    Op::Explicit { f, .. } | Op::Retract { f } if *f == name => {}
                    Op::Logical { f, .. } | Op::Justify { f, .. } if *f == name => {}
                    Op::Logical { f, premises } if premises.contains(&name) => {
                        let p: Vec<u8> = premises.iter().copied().filter(|x| *x != name).collect();
                        if !p.is_empty() {
                            ops2.push(Op::Logical { f: *f, premises: p });
                        } else {
                            ops2.push(Op::Explicit { f: *f, plain: false });
                        }
                    }
                    Op::Justify { f, premises } if premises.contains(&name) => {
                        let p: Vec<u8> = premises.iter().copied().filter(|x| *x != name).collect();
                        if !p.is_empty() {
                            ops2.push(Op::Justify { f: *f, premises: p });
                        }
                    }
                    other => ops2.push(other.clone()),
                }
            }
            let cc = Case { ops: ops2, ..cur.clone() };
            if cc.ops.len() < cur.ops.len() && fails_clause(&cc, clause) {
                cur = cc;
            }
        }
        // drop single premises
        for i in 0..cur.ops.len() {
            let (f, premises, is_logical) = match &cur.ops[i] {
                Op::Logical { f, premises } => (*f, premises.clone(), true),
                Op::Justify { f, premises } => (*f, premises.clone(), false),
                _ => continue,
            };
            let mut prem = premises;
            let mut k = 0;
            while k < prem.len() && prem.len() > 1 {
                let mut cand = prem.clone();
                cand.remove(k);
                let mut cc = cur.clone();
                cc.ops[i] = if is_logical { Op::Logical { f, premises: cand.clone() } } else { Op::Justify { f, premises: cand.clone() } };
                if fails_clause(&cc, clause) {
                    prem = cand;
                    cur = cc;
                } else {
                    k += 1;
                }
            }
        }
        if cur.watcher_rule {
            let cc = Case { watcher_rule: false, ..cur.clone() };
            if fails_clause(&cc, clause) {
                cur = cc;
            }
        }
        if cur.rule_names != 0 {
            let cc = Case { rule_names: 0, ..cur.clone() };
            if fails_clause(&cc, clause) {
                cur = cc;
            }
        }
        if cur == before {
            break;
        }
    }
    cur
}

const SHARD_DISTINCT_CAP: usize = 250_000;

thread_local! {
    /// per-shard observation tally, flushed into Stats by `flush_tally`
    static TALLY: std::cell::RefCell<Tally> = std::cell::RefCell::new(Tally::default());
    /// the most recent failing prefix (ops up to and including the first failing step) of this
    /// shard: the exhaustive sweep visits all extensions of a prefix consecutively, and every
    /// extension of a failing prefix fails at the same step for the same reason
    static LAST_FAILING_PREFIX: std::cell::RefCell<Option<(bool, Vec<Op>)>> = const { std::cell::RefCell::new(None) };
}

#[derive(Default, Clone)]
struct Tally {
    obs: Obs,
    illformed: u64,
    nontrivial: u64,
    violating: u64,
}

fn flush_tally(st: &mut Stats) {
    let t = TALLY.with(|t| std::mem::take(&mut *t.borrow_mut()));
    let obs = &t.obs;
    st.add("operations_run", obs.ops);
    st.add("state_comparisons_after_an_op", obs.comparisons);
    st.add("retractions", obs.retractions);
    st.add("retractions_of_explicit_facts", obs.retract_explicit);
    st.add("retractions_of_derived_facts", obs.retract_derived);
    st.add("facts_removed_by_cascade", obs.cascaded_facts);
    st.max("max::facts_removed_by_one_cascade", obs.max_cascade);
    st.add("facts_that_lost_a_justification_and_survived_on_another", obs.survived_on_other_justification);
    st.add("retract_calls_on_already_absent_facts", obs.retract_of_dead_fact);
    st.add("retract_calls_on_not_yet_issued_handles", obs.retract_of_unissued_handle);
    st.add("retract_of_live_fact_returned_err", obs.retract_live_returned_err);
    st.add("histories_with_cyclic_support_where_the_two_readings_differ", obs.histories_where_readings_differ);
    st.add("histories_where_engine_followed_wellfounded_reading", obs.followed_wellfounded_reading);
    st.add("illformed_cases_not_judged", t.illformed);
    st.add("nontrivial_cases", t.nontrivial);
    st.add("cases_with_a_violation", t.violating);
}

fn check_case(c: &Case, st: &mut Stats) {
    st.eval();
    let dup = LAST_FAILING_PREFIX.with(|l| match &*l.borrow() {
        Some((w, p)) => *w == c.watcher_rule && c.ops.len() > p.len() && c.ops[..p.len()] == p[..],
        None => false,
    });
    if dup {
        st.add("extensions_of_an_already_reported_failing_prefix_skipped", 1);
        return;
    }
    let (out, obs) = match pan::catch_frames(|| run_case(c, None)) {
        Ok(r) => r,
        Err(p) => {
            let cc = shrink(c, "no-panic");
            st.violation(to_violation(
                &cc,
                "no-panic",
                &format!("{}|{}", p.class(), p.frame),
                &format!("panic: {} at {}:{}", p.msg, p.file, p.line),
            ));
            return;
        }
    };
    TALLY.with(|t| {
        let mut t = t.borrow_mut();
        let o = &mut t.obs;
        o.ops += obs.ops;
        o.comparisons += obs.comparisons;
        o.retractions += obs.retractions;
        o.retract_explicit += obs.retract_explicit;
        o.retract_derived += obs.retract_derived;
        o.cascaded_facts += obs.cascaded_facts;
        o.max_cascade = o.max_cascade.max(obs.max_cascade);
        o.survived_on_other_justification += obs.survived_on_other_justification;
        o.retract_of_dead_fact += obs.retract_of_dead_fact;
        o.retract_of_unissued_handle += obs.retract_of_unissued_handle;
        o.retract_live_returned_err += obs.retract_live_returned_err;
        o.histories_where_readings_differ += obs.histories_where_readings_differ;
        o.followed_wellfounded_reading += obs.followed_wellfounded_reading;
        match &out {
            Outcome::IllFormed(_) => t.illformed += 1,
            Outcome::Held => {
                if obs.cascaded_facts > 0 {
                    t.nontrivial += 1;
                }
            }
            Outcome::Violated(_) => t.violating += 1,
        }
    });
    match out {
        Outcome::IllFormed(_) => {}
        Outcome::Held => {
            if obs.cascaded_facts > 0 {
                if st.distinct.len() < SHARD_DISTINCT_CAP {
                    st.nontrivial(hash_of(c));
                    st.sample(|| c.to_json());
                } else {
                    st.distinct_saturated = true;
                }
            }
        }
        Outcome::Violated(f) => {
            LAST_FAILING_PREFIX.with(|l| *l.borrow_mut() = Some((c.watcher_rule, c.ops[..=f.step.min(c.ops.len() - 1)].to_vec())));
            let cc = shrink(c, &f.clause);
            match pan::catch(|| run_case(&cc, None)) {
                Ok((Outcome::Violated(f2), _)) => st.violation(to_violation(&cc, &f2.clause, &f2.cause, &f2.detail)),
                _ => st.violation(to_violation(c, &f.clause, &f.cause, &f.detail)),
            }
        }
    }
}

// ------------------------------------------------------------------------------------------
// generators
// ------------------------------------------------------------------------------------------

/// all non-empty subsets of `live` with at most 3 members (premise sets, as sorted lists)
fn premise_sets(live: &[u8]) -> Vec<Vec<u8>> {
    let n = live.len();
    let mut v = Vec::new();
    for mask in 1u32..(1u32 << n) {
        if mask.count_ones() <= 3 {
            v.push((0..n).filter(|i| mask & (1 << i) != 0).map(|i| live[i]).collect());
        }
    }
    v
}

/// The op alphabet of the exhaustive sweep in model state `m` with at most `max_facts` facts.
fn alphabet(m: &Model, max_facts: usize) -> Vec<Op> {
    let issued = m.issued().count();
    let live = m.live();
    let sets = premise_sets(&live);
    let mut v = Vec::new();
    if issued < max_facts {
        let f = issued as u8;
        v.push(Op::Explicit { f, plain: false });
        for p in &sets {
            v.push(Op::Logical { f, premises: p.clone() });
        }
    }
    for g in &live {
        if m.facts[*g as usize].as_ref().unwrap().kind == Kind::Logical {
            for p in &sets {
                v.push(Op::Justify { f: *g, premises: p.clone() });
            }
        }
    }
    for g in &live {
        v.push(Op::Retract { f: *g });
    }
    if issued < max_facts {
        v.push(Op::RetractUnissued { ahead: 0 });
    }
    v
}

fn dfs(prefix: &mut Vec<Op>, m: &Model, depth_left: usize, max_facts: usize, st: &mut Stats) {
    let alpha = alphabet(m, max_facts);
    if depth_left == 0 || alpha.is_empty() {
        // maximal history: run it (every prefix is judged because the monitor compares after every op)
        // same history under per-op rule names and under one rule name for every justification
        check_case(&Case { ops: prefix.clone(), watcher_rule: false, rule_names: 0, premises_by_key: false }, st);
        if prefix.iter().any(|o| matches!(o, Op::Justify { .. })) {
            check_case(&Case { ops: prefix.clone(), watcher_rule: false, rule_names: 1, premises_by_key: false }, st);
        }
        st.add("exhaustive_maximal_histories", 1);
        return;
    }
    for op in alpha {
        let mut m2 = m.clone();
        if m2.apply(&op).is_err() {
            continue;
        }
        prefix.push(op);
        dfs(prefix, &m2, depth_left - 1, max_facts, st);
        prefix.pop();
    }
}

fn collect_prefixes(prefix: &mut Vec<Op>, m: &Model, depth_left: usize, max_facts: usize, out: &mut Vec<(Vec<Op>, Model)>) {
    let alpha = alphabet(m, max_facts);
    if depth_left == 0 || alpha.is_empty() {
        out.push((prefix.clone(), m.clone()));
        return;
    }
    for op in alpha {
        let mut m2 = m.clone();
        if m2.apply(&op).is_err() {
            continue;
        }
        prefix.push(op);
        collect_prefixes(prefix, &m2, depth_left - 1, max_facts, out);
        prefix.pop();
    }
}

fn gen_random(rng: &mut Rng, max_ops: usize, max_facts: usize) -> Case {
    let len = 2 + rng.below(max_ops - 1);
    let nfacts = 2 + rng.below(max_facts - 1);
    let hostile = rng.chance(1, 6); // empty premise lists, duplicate premises, self-support, retract of absent facts
    let p_retract = 15 + rng.below(30);
    let p_justify = 10 + rng.below(25);
    let chainy = rng.chance(1, 3);
    let p_unissued = if rng.chance(1, 4) { 12 } else { 0 };
    let mut m = Model::new();
    let mut ops: Vec<Op> = Vec::new();
    let mut tries = 0;
    while ops.len() < len && tries < 300 {
        tries += 1;
        let issued: Vec<u8> = m.issued().collect();
        let live = m.live();
        let live_logical: Vec<u8> = live.iter().copied().filter(|g| m.facts[*g as usize].as_ref().unwrap().kind == Kind::Logical).collect();
        let roll = rng.below(100);
        let pick_premises = |rng: &mut Rng, exclude: Option<u8>| -> Vec<u8> {
            let mut pool: Vec<u8> = live.iter().copied().filter(|p| Some(*p) != exclude || (hostile && rng.chance(1, 2))).collect();
            if pool.is_empty() {
                return vec![];
            }
            let want = match rng.below(10) {
                0..=4 => 1,
                5..=7 => 2,
                _ => 3,
            };
            let mut ps: Vec<u8> = Vec::new();
            if chainy && !live_logical.is_empty() && rng.chance(2, 3) {
                // extend chains: prefer the most recent derived fact
                let last = *live_logical.iter().max().unwrap();
                if pool.contains(&last) {
                    ps.push(last);
                    pool.retain(|x| *x != last);
                }
            }
            rng.shuffle(&mut pool);
            for p in pool {
                if ps.len() >= want {
                    break;
                }
                ps.push(p);
            }
            if hostile && !ps.is_empty() && rng.chance(1, 6) {
                ps.push(ps[0]);
            }
            ps
        };
        let op = if p_unissued > 0 && rng.below(100) < p_unissued {
            Op::RetractUnissued { ahead: rng.below(3) as u8 }
        } else if roll < p_retract && !issued.is_empty() {
            if hostile && rng.chance(1, 5) {
                Op::Retract { f: *rng.pick(&issued) }
            } else if !live.is_empty() {
                Op::Retract { f: *rng.pick(&live) }
            } else {
                continue;
            }
        } else if roll < p_retract + p_justify && !live_logical.is_empty() {
            let f = *rng.pick(&live_logical);
            let ps = pick_premises(rng, Some(f));
            if ps.is_empty() {
                continue;
            }
            Op::Justify { f, premises: ps }
        } else if issued.len() < nfacts {
            let f = issued.len() as u8;
            if live.is_empty() || rng.chance(1, 3) {
                Op::Explicit { f, plain: rng.chance(1, 3) }
            } else {
                let ps = if hostile && rng.chance(1, 8) { vec![] } else { pick_premises(rng, None) };
                Op::Logical { f, premises: ps }
            }
        } else if !live.is_empty() {
            Op::Retract { f: *rng.pick(&live) }
        } else {
            break;
        };
        let mut m2 = m.clone();
        if m2.apply(&op).is_ok() {
            m = m2;
            ops.push(op);
        }
    }
    Case { ops, watcher_rule: rng.chance(1, 4), rule_names: rng.below(3) as u8, premises_by_key: rng.chance(1, 4) }
}

// ------------------------------------------------------------------------------------------
// long structures (beyond the model's 64 names): chains and fans of derived facts
// ------------------------------------------------------------------------------------------

/// `chain`: f0 explicit, f(i+1) <- {f(i)}; `fan`: f0 explicit, every other fact <- {f0}. The fact
/// with index `cut` is retracted; everything that (transitively) rests on it must be gone in the
/// same call, everything else must still be there.
fn run_long(shape: &str, n: usize, cut: usize) -> Option<(String, String)> {
    let mut eng = IncrementalEngine::new();
    let mut hs: Vec<FactHandle> = Vec::with_capacity(n);
    let data = |i: usize| {
        let mut d = TypedFacts::new();
        d.set("id", FactValue::Integer(i as i64));
        d
    };
    hs.push(eng.insert_explicit("L".to_string(), data(0)));
    for i in 1..n {
        let prem = if shape == "chain" { vec![hs[i - 1]] } else { vec![hs[0]] };
        hs.push(eng.insert_logical("L".to_string(), data(i), format!("r{}", i), prem));
    }
    if eng.retract(hs[cut]).is_err() {
        return Some(("retracted-fact-removed".into(), format!("retract of live fact #{} of a {} of {} returned Err", cut, shape, n)));
    }
    let gone = |i: usize| -> bool {
        if shape == "chain" {
            i >= cut
        } else {
            i == cut || cut == 0
        }
    };
    let mut wrong_present: Vec<usize> = Vec::new();
    let mut wrong_absent: Vec<usize> = Vec::new();
    for i in 0..n {
        let present = eng.working_memory().get(&hs[i]).is_some();
        if present && gone(i) {
            wrong_present.push(i);
        }
        if !present && !gone(i) {
            wrong_absent.push(i);
        }
    }
    if !wrong_present.is_empty() {
        return Some((
            "unsupported-fact-present".into(),
            format!("{} of {} facts, #{} retracted: {} facts that rest on it are still present (first #{}, last #{}): the cascade stopped short", shape, n, cut, wrong_present.len(), wrong_present[0], wrong_present[wrong_present.len() - 1]),
        ));
    }
    if !wrong_absent.is_empty() {
        return Some(("supported-fact-removed".into(), format!("{} of {} facts, #{} retracted: {} facts that do not rest on it are gone (first #{})", shape, n, cut, wrong_absent.len(), wrong_absent[0])));
    }
    None
}

fn long_case_json(shape: &str, n: usize, cut: usize) -> Json {
    json!({"kind": "long-structure", "shape": shape, "facts": n, "retract": cut})
}

fn explore_long(cli: &Cli, st: &mut Stats) {
    let sizes: &[usize] = match cli.tier {
        Tier::Quick => &[5, 70, 300, 1100, 2500],
        Tier::Thorough => &[5, 70, 300, 1100, 2500, 10_000],
    };
    for shape in ["chain", "fan"] {
        for &n in sizes {
            for cut in [0, 1, n / 3, n - 2, n - 1] {
                if cut >= n {
                    continue;
                }
                st.eval();
                st.count("long_structures_(chains_and_fans_of_derived_facts)");
                st.max("max::facts_in_one_long_structure", n as u64);
                // deep recursion in the library needs room: run on a thread with a large stack
                let (sh, n2) = (shape.to_string(), n);
                let r = std::thread::Builder::new().stack_size(256 << 20).spawn(move || pan::catch(|| run_long(&sh, n2, cut))).ok().and_then(|h| h.join().ok());
                match r {
                    Some(Ok(None)) => st.nontrivial(hash_of(&(shape, n, cut))),
                    Some(Ok(Some((clause, detail)))) => st.violation(Violation { clause: clause.clone(), sig: mk_long_sig(&clause, shape), detail, case: long_case_json(shape, n, cut) }),
                    Some(Err(p)) => st.violation(Violation { clause: "no-panic".into(), sig: format!("C08|no-panic|{}|{}", p.class(), p.frame), detail: format!("panic: {} at {}:{}", p.msg, p.file, p.line), case: long_case_json(shape, n, cut) }),
                    None => st.inconclusive("a long-structure thread could not be run"),
                }
            }
        }
    }
}

fn mk_long_sig(clause: &str, shape: &str) -> String {
    format!("C08|{}|long-{}", clause, shape)
}

struct C08;

impl Check for C08 {
    fn id(&self) -> &'static str {
        "C08"
    }
    fn rule(&self) -> String {
        "exhaustive: every history of exactly N ops (shorter only when no op is possible) over at most F facts, for (N,F) = (7,4) and (6,7) quick / (7,7) and then (8,4) thorough, from the alphabet {insert_explicit(new); insert_logical(new, P); add_logical_justification(g, P) for every live logical g (P may contain g: support cycles); retract(h) for every live h; retract of the next not-yet-issued handle}; every maximal history with a justification is run twice, with a different source-rule name per op and with ONE rule name for all justifications, P ranging over every non-empty set of <= 3 live facts; the monitor compares after every op, so every shorter history is judged as a prefix. random: histories of 2..=10 ops over 2..=7 facts (thorough: every fourth one 2..=16 ops over up to 10 facts), 1-3 premises, chain-biased and uniform premise choice, 1/6 of them with hostile features (empty or duplicated premise lists, self-support, retract of an already absent fact), 1/4 with failing retract calls on handles that are issued only later, source-rule names per op / one for all / two alternating, 1/4 with a no-op rule registered per fact type so that the engine's re-propagation runs. 1/4 with the premises handed over as text keys `Type.tag=value` (values containing `=`, `?`, `.`, blanks) and resolved by IncrementalEngine::resolve_premise_keys. LONG structures (beyond the statement's 7 facts): chains f(i+1)<-{f(i)} and fans f(i)<-{f0} of 5..2500 (thorough 10000) facts, one fact retracted at the root, near it, a third of the way, near the end, at the end; everything resting on it must be gone in the same call and nothing else. A case is non-trivial when at least one retraction removed at least one other fact by cascade; distinct by op sequence.".into()
    }
    fn assumptions(&self) -> Vec<String> {
        vec![
            "presence of a fact = working_memory().get(handle).is_some()".into(),
            "with cyclic support the statement's invariant has two solutions (mutual support counts / support must be grounded in explicit facts); either is accepted if followed consistently within a history".into(),
            "justifications are only added (tms_mut().add_logical_justification) to live logical facts, with live premises (the quantifier's proviso); a justification with an empty premise list is vacuously supported".into(),
            "tms().has_valid_justification is the API for 'has support': it must be true for every present fact and false for a logical fact removed by cascade; nothing is demanded of it for explicitly retracted facts".into(),
            "retracting an already absent fact must change nothing; its return value is not judged".into(),
        ]
    }
    fn explore(&self, cli: &Cli, st: &mut Stats) {
        let nthreads = cli.threads;
        explore_long(cli, st);
        let mut sweeps: Vec<(usize, usize)> = match cli.tier {
            Tier::Quick => vec![(7, 4), (6, 7)],
            Tier::Thorough => vec![(7, 7), (8, 4)],
        };
        // experimentation only: VERIF_C08_SWEEPS="7,4;6,5"
        if let Ok(s) = std::env::var("VERIF_C08_SWEEPS") {
            let v: Vec<(usize, usize)> = s
                .split(';')
                .filter_map(|p| p.split_once(','))
                .filter_map(|(a, b)| Some((a.trim().parse().ok()?, b.trim().parse().ok()?)))
                .collect();
            if !v.is_empty() {
                sweeps = v;
            }
        }
        let sweep = |n_ops: usize, n_facts: usize, st: &mut Stats| {
            let split = 4.min(n_ops);
            let mut jobs: Vec<(Vec<Op>, Model)> = Vec::new();
            collect_prefixes(&mut Vec::new(), &Model::new(), split, n_facts, &mut jobs);
            let jobs_ref = &jobs;
            let stopped = std::sync::atomic::AtomicBool::new(false);
            let stopped_ref = &stopped;
            shards(cli, nthreads, st, |shard, _rng, st| {
                for (ji, (prefix, m)) in jobs_ref.iter().enumerate() {
                    if ji % nthreads != shard {
                        continue;
                    }
                    if cli.expired() {
                        stopped_ref.store(true, std::sync::atomic::Ordering::SeqCst);
                        st.count("stopped_by_time_budget");
                        break;
                    }
                    let mut p = prefix.clone();
                    dfs(&mut p, m, n_ops - prefix.len().min(n_ops), n_facts, st);
                }
                flush_tally(st);
            });
            if !stopped.load(std::sync::atomic::Ordering::SeqCst) {
                st.exhaustive.push(format!(
                    "all histories of {} ops over <= {} facts (insert_explicit / insert_logical with every non-empty premise set of <= 3 live facts / add_logical_justification to every live logical fact incl. self- and mutual support / retract of every live fact), compared after every op",
                    n_ops, n_facts
                ));
            }
        };
        // 1. first exhaustive sweep
        let (n0, f0) = sweeps[0];
        sweep(n0, f0, st);
        // 2. random part
        let per = cli.n(80_000, 3_000_000);
        shards(cli, nthreads, st, |_shard, rng, st| {
            for i in 0..per {
                if cli.expired() {
                    st.count("stopped_by_time_budget");
                    break;
                }
                let beyond = cli.tier == Tier::Thorough && i % 4 == 3;
                let c = if beyond { gen_random(rng, 16, 10) } else { gen_random(rng, 10, 7) };
                if beyond {
                    st.add("random_cases_beyond_stated_bound", 1);
                } else {
                    st.add("random_cases_within_stated_bound", 1);
                }
                check_case(&c, st);
            }
            flush_tally(st);
        });
        // 3. remaining (deeper) exhaustive sweeps last, so that a time-budget stop only costs them
        for (n, f) in sweeps.iter().skip(1) {
            sweep(*n, *f, st);
        }
    }
    fn replay(&self, cli: &Cli, case: &Json) -> Vec<Violation> {
        if case["kind"].as_str() == Some("long-structure") {
            let (shape, n, cut) = (case["shape"].as_str().unwrap_or("chain").to_string(), case["facts"].as_u64().unwrap_or(5) as usize, case["retract"].as_u64().unwrap_or(0) as usize);
            let sh = shape.clone();
            let r = std::thread::Builder::new().stack_size(256 << 20).spawn(move || pan::catch(|| run_long(&sh, n, cut))).ok().and_then(|h| h.join().ok());
            return match r {
                Some(Ok(Some((clause, detail)))) => vec![Violation { clause: clause.clone(), sig: mk_long_sig(&clause, &shape), detail, case: case.clone() }],
                Some(Err(p)) => vec![Violation { clause: "no-panic".into(), sig: format!("C08|no-panic|{}|{}", p.class(), p.frame), detail: format!("panic: {} at {}:{}", p.msg, p.file, p.line), case: case.clone() }],
                _ => vec![],
            };
        }
        let Some(c) = Case::from_json(case) else {
            return vec![Violation {
                clause: "harness".into(),
                sig: "C08|harness|bad-case".into(),
                detail: "cannot decode case".into(),
                case: case.clone(),
            }];
        };
        let mut trace: Vec<String> = Vec::new();
        let r = pan::catch_frames(|| run_case(&c, Some(&mut trace)));
        if cli.verbose || cli.replay.is_some() {
            for l in &trace {
                out!("{}", l);
            }
        }
        match r {
            Ok((Outcome::Violated(f), _)) => vec![to_violation(&c, &f.clause, &f.cause, &f.detail)],
            Ok((Outcome::Held, _)) => vec![],
            Ok((Outcome::IllFormed(why), _)) => {
                out!("NOTE property=C08 the history breaks the quantifier's proviso and is not judged: {}", why);
                vec![]
            }
            Err(p) => vec![to_violation(
                &c,
                "no-panic",
                &format!("{}|{}", p.class(), p.frame),
                &format!("panic: {} at {}:{}", p.msg, p.file, p.line),
            )],
        }
    }
}

fn main() {
    run_main(C08)
}
