//! Panic capture: a panic hook that records message, location and the innermost frame inside
//! the library, and `catch` which turns a panic into a value.

use std::cell::{Cell, RefCell};
use std::panic::{self, AssertUnwindSafe};

#[derive(Debug, Clone)]
pub struct PanicInfo {
    pub msg: String,
    pub file: String,
    pub line: u32,
    /// innermost `rust_rule_engine::…` function on the stack (hash/closure suffixes stripped),
    /// empty if frames were not captured
    pub frame: String,
}

impl PanicInfo {
    /// Coarse class of the message, stable under changes to the offending text.
    pub fn class(&self) -> String {
        let m = &self.msg;
        for (needle, class) in [
            ("is not a char boundary", "not-a-char-boundary"),
            ("byte index", "byte-index-out-of-range"),
            ("out of range for slice", "slice-index-out-of-range"),
            ("index out of bounds", "index-out-of-bounds"),
            ("slice index starts at", "slice-index-order"),
            ("begin <= end", "slice-index-order"),
            ("attempt to subtract with overflow", "sub-overflow"),
            ("attempt to add with overflow", "add-overflow"),
            ("attempt to multiply with overflow", "mul-overflow"),
            ("attempt to negate with overflow", "neg-overflow"),
            ("attempt to divide by zero", "div-by-zero"),
            ("attempt to calculate the remainder with a divisor of zero", "rem-by-zero"),
            ("called `Option::unwrap()` on a `None` value", "unwrap-none"),
            ("called `Result::unwrap()` on an `Err` value", "unwrap-err"),
            ("capacity overflow", "capacity-overflow"),
            ("already borrowed", "refcell-borrow"),
            ("already mutably borrowed", "refcell-borrow"),
            ("PoisonError", "poisoned-lock"),
            ("internal error: entered unreachable code", "unreachable"),
            ("not implemented", "unimplemented"),
            ("explicit panic", "explicit-panic"),
        ] {
            if m.contains(needle) {
                return class.to_string();
            }
        }
        let mut s: String = m
            .chars()
            .take(48)
            .map(|c| if c.is_ascii_digit() { 'N' } else if c.is_ascii_alphanumeric() || c == ' ' { c } else { '_' })
            .collect();
        s = s.replace(' ', "-");
        s
    }
}

thread_local! {
    static LAST: RefCell<Option<PanicInfo>> = const { RefCell::new(None) };
    static WANT_FRAMES: Cell<bool> = const { Cell::new(false) };
    static QUIET: Cell<bool> = const { Cell::new(false) };
}

fn innermost_lib_frame() -> String {
    let bt = std::backtrace::Backtrace::force_capture().to_string();
    for line in bt.lines() {
        let l = line.trim();
        // frame lines look like "12: rust_rule_engine::parser::grl::GRLParser::parse_value"
        if let Some(pos) = l.find("rust_rule_engine::") {
            let mut f = l[pos..].to_string();
            if f.contains("verif_hooks") {
                continue;
            }
            // strip "::h0123456789abcdef"
            if let Some(h) = f.rfind("::h") {
                if f.len() - h == 19 && f[h + 3..].chars().all(|c| c.is_ascii_hexdigit()) {
                    f.truncate(h);
                }
            }
            while f.ends_with("::{{closure}}") {
                let n = f.len() - "::{{closure}}".len();
                f.truncate(n);
            }
            // drop generic arguments
            if let Some(lt) = f.find('<') {
                if !f.starts_with('<') {
                    f.truncate(lt);
                    while f.ends_with(':') {
                        f.pop();
                    }
                }
            }
            return f;
        }
    }
    String::new()
}

/// Install the recording hook (idempotent enough: call once from main).
pub fn install_hook() {
    let prev = panic::take_hook();
    panic::set_hook(Box::new(move |info| {
        let msg = if let Some(s) = info.payload().downcast_ref::<&str>() {
            s.to_string()
        } else if let Some(s) = info.payload().downcast_ref::<String>() {
            s.clone()
        } else {
            "<non-string panic payload>".to_string()
        };
        let (file, line) = info
            .location()
            .map(|l| (l.file().to_string(), l.line()))
            .unwrap_or_default();
        let frame = if WANT_FRAMES.with(|w| w.get()) {
            innermost_lib_frame()
        } else {
            String::new()
        };
        let quiet = QUIET.with(|q| q.get());
        LAST.with(|l| {
            *l.borrow_mut() = Some(PanicInfo {
                msg,
                file,
                line,
                frame,
            })
        });
        if !quiet {
            prev(info);
        }
    }));
}

/// Run `f`, turning a panic into `Err(PanicInfo)`. Frames are captured when `frames` is set.
pub fn catch_opt<T>(frames: bool, f: impl FnOnce() -> T) -> Result<T, PanicInfo> {
    let old_w = WANT_FRAMES.with(|w| w.replace(frames));
    let old_q = QUIET.with(|q| q.replace(true));
    LAST.with(|l| *l.borrow_mut() = None);
    let r = panic::catch_unwind(AssertUnwindSafe(f));
    WANT_FRAMES.with(|w| w.set(old_w));
    QUIET.with(|q| q.set(old_q));
    match r {
        Ok(v) => Ok(v),
        Err(_) => Err(LAST.with(|l| l.borrow_mut().take()).unwrap_or(PanicInfo {
            msg: "<panic without hook record>".into(),
            file: String::new(),
            line: 0,
            frame: String::new(),
        })),
    }
}

pub fn catch<T>(f: impl FnOnce() -> T) -> Result<T, PanicInfo> {
    catch_opt(false, f)
}

pub fn catch_frames<T>(f: impl FnOnce() -> T) -> Result<T, PanicInfo> {
    catch_opt(true, f)
}
