//! Layout engine for C04: rules are first printed with whitespace *markers* — `\x01` where
//! whitespace is mandatory, `\x02` where it is optional (zero characters also separates the
//! tokens), `\x03` for the optional whitespace around arithmetic operators — and a `LayoutSpec`
//! then decides what every marker becomes and where comments go. String literals never contain
//! the markers, so they are opaque to the layout step by construction.

use super::ast::*;
use crate::core::Json;
use crate::rng::Rng;
use serde_json::json;

pub const M: char = '\x01'; // mandatory whitespace (canonical: one space)
pub const O: char = '\x02'; // optional whitespace, canonically one space (around operators, after commas)
pub const A: char = '\x03'; // around arithmetic operators (optional; canonical: one space)
pub const NL: char = '\x04'; // statement boundary: canonically a line break + indent
pub const P: char = '\x05'; // optional whitespace, canonically none (inside parentheses/brackets, after `!`, before `;`)

/// Independent layout features on top of the canonical (documentation-style) layout. Each one
/// is a whitespace change the grammar allows; the shrinker switches them off one by one, so a
/// surviving feature names the cause.
#[derive(Clone, Copy, Debug, PartialEq, Eq, PartialOrd, Ord)]
pub enum LayoutFeature {
    /// statement boundaries become single spaces: the whole rule on one line
    OneLine,
    /// a space after `(` `[` `!` and before `)` `]` `;`
    SpaceInsideParens,
    /// no whitespace around comparison/logical/assignment operators and after commas
    NoSpaceAroundOperators,
    /// no whitespace around arithmetic operators
    NoSpaceAroundArithmetic,
    /// every mandatory/operator whitespace is a line break (one token per line)
    NewlineBetweenTokens,
    /// tabs instead of spaces
    Tabs,
    /// runs of several spaces
    WideSpaces,
    /// blank lines between statements
    BlankLines,
    /// nothing at all between the `}` that closes a rule and the `rule` that opens the next
    RulesTouch,
}

pub const ALL_LAYOUT_FEATURES: [LayoutFeature; 9] = [
    LayoutFeature::OneLine,
    LayoutFeature::SpaceInsideParens,
    LayoutFeature::NoSpaceAroundOperators,
    LayoutFeature::NoSpaceAroundArithmetic,
    LayoutFeature::NewlineBetweenTokens,
    LayoutFeature::Tabs,
    LayoutFeature::WideSpaces,
    LayoutFeature::BlankLines,
    LayoutFeature::RulesTouch,
];

#[derive(Clone, Debug, PartialEq)]
pub enum CommentKind {
    /// `// text` on a line of its own
    Line,
    /// `// text` at the end of a line that carries a statement
    Trailing,
    /// `/* text */` at a whitespace position
    Block,
    /// `/*text*/` (nothing between the markers and the text: `/** doc **/`, `/***/`, `/**/`)
    BlockTight,
}

#[derive(Clone, Debug, PartialEq)]
pub struct Comment {
    pub kind: CommentKind,
    pub text: String,
    /// index (mod count) among the eligible positions
    pub slot: usize,
}

#[derive(Clone, Debug, PartialEq)]
pub struct LayoutSpec {
    pub features: Vec<LayoutFeature>,
    /// when set, each whitespace position applies the features with probability 1/2 (seeded)
    pub mixed: bool,
    pub seed: u64,
    pub comments: Vec<Comment>,
}

impl LayoutSpec {
    pub fn canonical() -> Self {
        LayoutSpec { features: vec![], mixed: false, seed: 0, comments: vec![] }
    }
    pub fn has(&self, f: LayoutFeature) -> bool {
        self.features.contains(&f)
    }
    pub fn to_json(&self) -> Json {
        json!({
            "features": self.features.iter().map(|f| format!("{:?}", f)).collect::<Vec<_>>(),
            "mixed": self.mixed,
            "seed": self.seed,
            "comments": self.comments.iter().map(|c| json!({"kind": format!("{:?}", c.kind), "text": c.text, "slot": c.slot})).collect::<Vec<_>>(),
        })
    }
    pub fn from_json(j: &Json) -> Option<Self> {
        let mut features = Vec::new();
        for f in j.get("features")?.as_array()? {
            let name = f.as_str()?;
            features.push(*ALL_LAYOUT_FEATURES.iter().find(|x| format!("{:?}", x) == name)?);
        }
        let mut comments = Vec::new();
        for c in j.get("comments")?.as_array()? {
            comments.push(Comment {
                kind: match c.get("kind")?.as_str()? {
                    "Line" => CommentKind::Line,
                    "Trailing" => CommentKind::Trailing,
                    "Block" => CommentKind::Block,
                    "BlockTight" => CommentKind::BlockTight,
                    _ => return None,
                },
                text: c.get("text")?.as_str()?.to_string(),
                slot: c.get("slot")?.as_u64()? as usize,
            });
        }
        Some(LayoutSpec { features, mixed: j.get("mixed")?.as_bool()?, seed: j.get("seed")?.as_u64()?, comments })
    }
}

// ---------------------------------------------------------------- marked printing

fn m_chain(c: &Chain) -> String {
    let mut s = fmt_operand(&c.first);
    for (op, o) in &c.rest {
        s.push(A);
        s.push(*op);
        s.push(A);
        s.push_str(&fmt_operand(o));
    }
    s
}

fn m_lit(v: &super::val::V) -> String {
    use super::val::V;
    match v {
        V::Arr(a) => format!("[{}{}{}]", P, a.iter().map(m_lit).collect::<Vec<_>>().join(&format!(",{}", O)), P),
        other => fmt_lit(other),
    }
}

fn m_rhs(r: &Rhs) -> String {
    match r {
        Rhs::Lit(v) => m_lit(v),
        Rhs::FieldRef(p) => p.clone(),
        Rhs::Arith(c) => m_chain(c),
    }
}

fn m_leaf(l: &Leaf) -> String {
    let lhs = match &l.lhs {
        Lhs::Field(p) => p.clone(),
        Lhs::Arith(c) => m_chain(c),
    };
    // word operators need real whitespace, symbol operators do not
    let sep = if matches!(l.op, Op::Contains | Op::StartsWith | Op::EndsWith | Op::In) { M } else { O };
    format!("{}{}{}{}{}", lhs, sep, l.op.text(), sep, m_rhs(&l.rhs))
}

thread_local! {
    /// print `!(!(x))` as `!!(x)` (adjacent negations); set by `m_rule`
    static ADJACENT_NOT: std::cell::Cell<bool> = const { std::cell::Cell::new(false) };
}

fn m_cond(c: &Cond) -> String {
    fn paren(p: bool, s: String) -> String {
        if p {
            format!("({}{}{})", P, s, P)
        } else {
            s
        }
    }
    match c {
        Cond::Leaf(l) => m_leaf(l),
        Cond::Not(a) => {
            if matches!(**a, Cond::Not(_)) && ADJACENT_NOT.with(|f| f.get()) {
                // stacked negations written with nothing between them: `!!(x)`
                format!("!{}", m_cond(a))
            } else {
                format!("!{}({}{}{})", P, P, m_cond(a), P)
            }
        }
        Cond::And(a, b) => {
            let pa = matches!(**a, Cond::Or(..));
            let pb = matches!(**b, Cond::Or(..) | Cond::And(..));
            format!("{}{}&&{}{}", paren(pa, m_cond(a)), O, O, paren(pb, m_cond(b)))
        }
        Cond::Or(a, b) => {
            let pb = matches!(**b, Cond::Or(..));
            format!("{}{}||{}{}", m_cond(a), O, O, paren(pb, m_cond(b)))
        }
    }
}

fn m_args(args: &[Rhs]) -> String {
    args.iter().map(m_rhs).collect::<Vec<_>>().join(&format!(",{}", O))
}

fn m_action(a: &Action) -> String {
    match a {
        Action::Set { target, rhs } => format!("{}{}={}{}", target, O, O, m_rhs(rhs)),
        Action::Append { target, rhs } => format!("{}{}+={}{}", target, O, O, m_rhs(rhs)),
        Action::Log(m) => format!("Log({}{}{})", P, fmt_str_lit(m, false), P),
        Action::Retract(o) => format!("Retract({}{}{})", P, fmt_str_lit(o, false), P),
        Action::ActivateAgendaGroup(g) => format!("ActivateAgendaGroup({}{}{})", P, fmt_str_lit(g, false), P),
        Action::ScheduleRule(ms, r) => format!("ScheduleRule({}{},{}{}{})", P, ms, O, fmt_str_lit(r, false), P),
        Action::CompleteWorkflow(w) => format!("CompleteWorkflow({}{}{})", P, fmt_str_lit(w, false), P),
        Action::SetWorkflowData(..) => fmt_action(a),
        Action::Call(n, args) => format!("{}({}{}{})", n, P, m_args(args), P),
        Action::Method(o, m, args) => format!("${}.{}({}{}{})", o, m, P, m_args(args), P),
    }
}

/// `attr_order`: a permutation seed for the attribute list; `alt_bool`: write `no-loop` /
/// `lock-on-active` without the `true`.
pub fn m_rule(r: &RuleAst, attr_perm: u64, bare_bool_attrs: bool) -> String {
    m_rule_opts(r, attr_perm, bare_bool_attrs, false)
}

/// `adjacent_not`: write stacked negations as `!!(x)` instead of `!(!(x))`.
pub fn m_rule_opts(r: &RuleAst, attr_perm: u64, bare_bool_attrs: bool, adjacent_not: bool) -> String {
    ADJACENT_NOT.with(|f| f.set(adjacent_not));
    let out = m_rule_inner(r, attr_perm, bare_bool_attrs);
    ADJACENT_NOT.with(|f| f.set(false));
    out
}

fn m_rule_inner(r: &RuleAst, attr_perm: u64, bare_bool_attrs: bool) -> String {
    let mut s = String::from("rule");
    s.push(M);
    if r.quoted_name {
        s.push_str(&format!("\"{}\"", r.name));
    } else {
        s.push_str(&r.name);
    }
    if let Some(d) = &r.description {
        s.push(M);
        s.push_str(&format!("\"{}\"", d));
    }
    let mut attrs = fmt_attrs(&r.attrs);
    if bare_bool_attrs {
        for a in attrs.iter_mut() {
            if a == "no-loop true" {
                *a = "no-loop".into();
            } else if a == "lock-on-active true" {
                *a = "lock-on-active".into();
            }
        }
    }
    if attrs.len() > 1 {
        let mut rng = Rng::new(attr_perm);
        if attr_perm != 0 {
            rng.shuffle(&mut attrs);
        }
    }
    for a in attrs {
        s.push(M);
        // the space inside an attribute ("salience 10") is mandatory whitespace too
        s.push_str(&a.replacen(' ', &M.to_string(), 1));
    }
    s.push(M);
    s.push('{');
    s.push(NL);
    s.push_str("when");
    s.push(M);
    s.push_str(&m_cond(&r.cond));
    s.push(NL);
    s.push_str("then");
    s.push(M);
    for (i, a) in r.actions.iter().enumerate() {
        if i > 0 {
            s.push(NL);
        }
        s.push_str(&m_action(a));
        s.push(P);
        s.push(';');
    }
    s.push(NL);
    s.push('}');
    s
}

// ---------------------------------------------------------------- applying a layout

/// Turn marked text into final text. Deterministic in `spec`.
pub fn apply_layout(marked_rules: &[String], spec: &LayoutSpec) -> String {
    use LayoutFeature::*;
    let mut rng = Rng::new(spec.seed ^ 0x1A70);
    let mut out = String::new();
    // byte offsets in `out` where a comment of each kind may go
    let mut line_slots: Vec<usize> = Vec::new(); // a fresh line can be inserted here
    let mut trailing_slots: Vec<usize> = Vec::new(); // end of a line that carries text
    let mut block_slots: Vec<usize> = Vec::new(); // any non-empty whitespace position
    let on = |f: LayoutFeature, rng: &mut Rng| spec.has(f) && (!spec.mixed || rng.bool());
    for (ri, mr) in marked_rules.iter().enumerate() {
        if ri > 0 {
            if !spec.has(RulesTouch) {
                out.push_str(if spec.has(OneLine) { " " } else { "\n\n" });
                if !spec.has(OneLine) {
                    line_slots.push(out.len());
                }
            }
        } else {
            line_slots.push(0);
        }
        for ch in mr.chars() {
            match ch {
                M | O | A | NL | P => {
                    // one draw per feature per position keeps the stream aligned when a feature is dropped
                    let f_paren = on(SpaceInsideParens, &mut rng);
                    let f_noop = on(NoSpaceAroundOperators, &mut rng);
                    let f_noar = on(NoSpaceAroundArithmetic, &mut rng);
                    let f_nl = on(NewlineBetweenTokens, &mut rng);
                    let f_tab = on(Tabs, &mut rng);
                    let f_wide = on(WideSpaces, &mut rng);
                    let f_blank = on(BlankLines, &mut rng);
                    let space = || -> String {
                        if f_nl {
                            "\n".into()
                        } else if f_tab {
                            "\t".into()
                        } else if f_wide {
                            "   ".into()
                        } else {
                            " ".into()
                        }
                    };
                    let ws: String = match ch {
                        M => space(),
                        O => {
                            if f_noop {
                                String::new()
                            } else {
                                space()
                            }
                        }
                        A => {
                            if f_noar {
                                String::new()
                            } else {
                                space()
                            }
                        }
                        P => {
                            if f_paren {
                                space()
                            } else {
                                String::new()
                            }
                        }
                        _ => {
                            // NL
                            if spec.has(OneLine) {
                                " ".into()
                            } else if f_blank {
                                "\n\n    ".into()
                            } else {
                                "\n    ".into()
                            }
                        }
                    };
                    if ws.contains('\n') {
                        trailing_slots.push(out.len());
                    }
                    out.push_str(&ws);
                    if !ws.is_empty() {
                        block_slots.push(out.len());
                        if ws.contains('\n') {
                            line_slots.push(out.len());
                        }
                    }
                }
                c => out.push(c),
            }
        }
    }
    out.push('\n');
    trailing_slots.push(out.len() - 1);
    line_slots.push(out.len());
    // insert comments back to front so offsets stay valid
    let mut ins: Vec<(usize, String)> = Vec::new();
    for c in &spec.comments {
        match c.kind {
            CommentKind::Line => {
                if !line_slots.is_empty() {
                    let p = line_slots[c.slot % line_slots.len()];
                    let pre = if p > 0 && !out[..p].ends_with('\n') { "\n" } else { "" };
                    ins.push((p, format!("{}// {}\n", pre, c.text)));
                }
            }
            CommentKind::Trailing => {
                if !trailing_slots.is_empty() {
                    let p = trailing_slots[c.slot % trailing_slots.len()];
                    ins.push((p, format!(" // {}", c.text)));
                }
            }
            CommentKind::Block => {
                if !block_slots.is_empty() {
                    let p = block_slots[c.slot % block_slots.len()];
                    ins.push((p, format!("/* {} */ ", c.text)));
                }
            }
            CommentKind::BlockTight => {
                if !block_slots.is_empty() {
                    let p = block_slots[c.slot % block_slots.len()];
                    ins.push((p, format!("/*{}*/ ", c.text)));
                }
            }
        }
    }
    ins.sort_by(|a, b| b.0.cmp(&a.0));
    for (p, t) in ins {
        if p <= out.len() && out.is_char_boundary(p) {
            out.insert_str(p, &t);
        }
    }
    out
}
