//! Grammar-based generator for rule sets + fact stores in the typed core of GRL (C01; parts are
//! reused by C02/C03/C04). Everything is drawn from the caller's `Rng`.

use super::ast::*;
use super::val::{Store, V};
use crate::rng::Rng;
use std::collections::BTreeMap;

#[derive(Clone, Copy, Debug, PartialEq, Eq)]
pub enum Ty {
    Int,
    Float,
    Str,
    Bool,
    ArrStr,
    ArrInt,
}

/// The field universe: path → type. Paths with a dot whose root is `Obj` live in a nested
/// object, those whose root is `Flat` are flat dotted keys.
pub fn schema() -> Vec<(&'static str, Ty)> {
    vec![
        ("n0", Ty::Int),
        ("n1", Ty::Int),
        ("n2", Ty::Int),
        ("x0", Ty::Float),
        ("x1", Ty::Float),
        ("s0", Ty::Str),
        ("s1", Ty::Str),
        ("b0", Ty::Bool),
        ("b1", Ty::Bool),
        ("tags", Ty::ArrStr),
        ("nums", Ty::ArrInt),
        ("Obj.n", Ty::Int),
        ("Obj.x", Ty::Float),
        ("Obj.s", Ty::Str),
        ("Obj.b", Ty::Bool),
        ("Obj.inner.n", Ty::Int),
        ("Obj.inner.s", Ty::Str),
        ("Flat.n", Ty::Int),
        ("Flat.s", Ty::Str),
    ]
}

/// paths whose parent is a number, a string or an array in every generated store
pub const BELOW_A_SCALAR: [&str; 6] = ["n0.y", "Obj.n.y", "Obj.s.len", "Obj.inner.n.z", "tags.first", "x0.frac"];

pub const STRS: [&str; 10] = [
    "alpha", "beta", "alphabet", "bet", "", "gamma delta", "A", "alpha ", "Alpha", "zeta_9",
];
pub const INTS: [i64; 16] = [-50, -3, -1, 0, 1, 2, 3, 4, 5, 7, 10, 12, 100, 2_147_483_648, 9_007_199_254_740_992, 9_007_199_254_740_993];
pub const FLOATS: [f64; 13] = [-2.5, -1.0, 0.0, 0.25, 0.5, 1.0, 1.5, 2.0, 3.75, 100.0, 0.1, 0.2, 0.3];

pub fn gen_value(rng: &mut Rng, ty: Ty) -> V {
    match ty {
        Ty::Int => V::Int(*rng.pick(&INTS)),
        Ty::Float => V::Float(*rng.pick(&FLOATS)),
        Ty::Str => V::Str(rng.pick(&STRS).to_string()),
        Ty::Bool => V::Bool(rng.bool()),
        Ty::ArrStr => {
            let n = rng.below(4);
            V::Arr((0..n).map(|_| V::Str(rng.pick(&STRS).to_string())).collect())
        }
        Ty::ArrInt => {
            let n = rng.below(4);
            V::Arr((0..n).map(|_| V::Int(*rng.pick(&INTS))).collect())
        }
    }
}

/// Float values that only ever appear in fact stores (they have no GRL literal form or would
/// not survive printing): infinities, a value one ulp away from 0.3, a denormal-ish tiny value.
pub const STORE_ONLY_FLOATS: [f64; 6] = [f64::INFINITY, f64::NEG_INFINITY, 0.30000000000000004, 0.3, 1e-20, 0.1];

fn gen_store_value(rng: &mut Rng, ty: Ty) -> V {
    if ty == Ty::Float && rng.chance(1, 6) {
        V::Float(*rng.pick(&STORE_ONLY_FLOATS))
    } else {
        gen_value(rng, ty)
    }
}

/// A store over the schema: each field present with probability ~0.8.
pub fn gen_store(rng: &mut Rng) -> Store {
    let mut top: BTreeMap<String, V> = BTreeMap::new();
    let mut obj: BTreeMap<String, V> = BTreeMap::new();
    let mut inner: BTreeMap<String, V> = BTreeMap::new();
    let obj_present = rng.chance(9, 10);
    let inner_present = rng.chance(4, 5);
    for (path, ty) in schema() {
        if !rng.chance(4, 5) {
            continue;
        }
        let v = gen_store_value(rng, ty);
        if let Some(rest) = path.strip_prefix("Obj.inner.") {
            inner.insert(rest.to_string(), v);
        } else if let Some(rest) = path.strip_prefix("Obj.") {
            obj.insert(rest.to_string(), v);
        } else {
            top.insert(path.to_string(), v);
        }
    }
    if obj_present {
        if inner_present {
            obj.insert("inner".to_string(), V::Obj(inner));
        }
        top.insert("Obj".to_string(), V::Obj(obj));
    }
    Store(top)
}

fn fields_of(tys: &[Ty]) -> Vec<&'static str> {
    schema().into_iter().filter(|(_, t)| tys.contains(t)).map(|(p, _)| p).collect()
}

fn gen_num_operand(rng: &mut Rng, allow_float: bool) -> Operand {
    match rng.below(5) {
        0 | 1 => {
            let tys: &[Ty] = if allow_float { &[Ty::Int, Ty::Float] } else { &[Ty::Int] };
            Operand::Field(rng.pick(&fields_of(tys)).to_string())
        }
        2 | 3 => Operand::Int(*rng.pick(&[0i64, 1, 2, 3, 4, 5, 7, 10])),
        _ => {
            if allow_float {
                Operand::Float(*rng.pick(&[0.5f64, 1.5, 2.0, 0.25]))
            } else {
                Operand::Int(*rng.pick(&[1i64, 2, 3]))
            }
        }
    }
}

/// Numeric chain with 1..=4 operators; the first operand is a field (the condition grammar
/// requires it on the left of a comparison).
pub fn gen_num_chain(rng: &mut Rng, first_is_field: bool) -> Chain {
    let allow_float = rng.chance(2, 3);
    let first = if first_is_field {
        let tys: &[Ty] = if allow_float { &[Ty::Int, Ty::Float] } else { &[Ty::Int] };
        Operand::Field(rng.pick(&fields_of(tys)).to_string())
    } else {
        gen_num_operand(rng, allow_float)
    };
    let n = 1 + rng.below(4);
    let mut rest = Vec::new();
    for _ in 0..n {
        let op = *rng.pick(&['+', '-', '*', '/', '%', '+', '-', '*']);
        // '%' only makes sense on integers: keep the operand an integer literal or field
        let o = if op == '%' { gen_num_operand(rng, false) } else { gen_num_operand(rng, allow_float) };
        rest.push((op, o));
    }
    Chain { first, rest }
}

pub fn gen_str_chain(rng: &mut Rng, hostile_arith_char: bool) -> Chain {
    let first = Operand::Field(rng.pick(&fields_of(&[Ty::Str])).to_string());
    let n = 1 + rng.below(2);
    let mut rest = Vec::new();
    for i in 0..n {
        let o = if rng.chance(1, 3) {
            Operand::Field(rng.pick(&fields_of(&[Ty::Str])).to_string())
        } else if hostile_arith_char && i == 0 {
            Operand::Str(rng.pick(&["-x", "a+b", "1*2", "n/a", "50%"]).to_string())
        } else {
            Operand::Str(rng.pick(&["_x", " and ", "Z", "alpha"]).to_string())
        };
        rest.push(('+', o));
    }
    Chain { first, rest }
}

#[derive(Clone, Copy, Debug, Default)]
pub struct Hostile {
    /// `tags contains "x"` on an array-valued field (documented under multifield operations)
    pub array_contains: bool,
    /// string literal with an arithmetic character inside a concatenation
    pub concat_lit_arith_char: bool,
    /// cross-type equalities, absent right-hand references … (oracle: Undefined, counted)
    pub undefined_mix: bool,
    /// assigned string literals whose text is the name of a fact (`s0 = "n0"`, `Obj.s = "Flat.s"`):
    /// the literal is a text, not a reference
    pub fact_name_literals: bool,
}

pub fn gen_leaf(rng: &mut Rng, h: &Hostile) -> Leaf {
    let k = rng.below(100);
    if k < 22 {
        // numeric field vs literal / reference
        let (f, ty) = *rng.pick(&schema().into_iter().filter(|(_, t)| matches!(t, Ty::Int | Ty::Float)).collect::<Vec<_>>());
        let op = *rng.pick(&Op::CMP);
        let rhs = match rng.below(10) {
            0..=4 => {
                // same-typed literal for equality, any numeric literal for ordering
                if op.is_ordering() && rng.bool() {
                    if ty == Ty::Int { Rhs::Lit(V::Float(*rng.pick(&FLOATS))) } else { Rhs::Lit(V::Int(*rng.pick(&INTS))) }
                } else if h.undefined_mix && rng.chance(1, 4) {
                    if ty == Ty::Int { Rhs::Lit(V::Float(*rng.pick(&FLOATS))) } else { Rhs::Lit(V::Int(*rng.pick(&INTS))) }
                } else {
                    Rhs::Lit(gen_value(rng, ty))
                }
            }
            5..=7 => {
                let tys: &[Ty] = if op.is_ordering() { &[Ty::Int, Ty::Float] } else if ty == Ty::Int { &[Ty::Int] } else { &[Ty::Float] };
                Rhs::FieldRef(rng.pick(&fields_of(tys)).to_string())
            }
            _ => Rhs::Arith(gen_num_chain(rng, false)),
        };
        Leaf { lhs: Lhs::Field(f.to_string()), op, rhs }
    } else if k < 40 {
        // string field
        let f = *rng.pick(&fields_of(&[Ty::Str]));
        let op = *rng.pick(&[Op::Eq, Op::Ne, Op::Contains, Op::StartsWith, Op::EndsWith, Op::Eq]);
        let rhs = if rng.chance(1, 4) {
            Rhs::FieldRef(rng.pick(&fields_of(&[Ty::Str])).to_string())
        } else {
            Rhs::Lit(V::Str(rng.pick(&STRS).to_string()))
        };
        Leaf { lhs: Lhs::Field(f.to_string()), op, rhs }
    } else if k < 50 {
        // boolean field
        let f = *rng.pick(&fields_of(&[Ty::Bool]));
        let op = *rng.pick(&[Op::Eq, Op::Ne]);
        let rhs = if rng.chance(1, 4) {
            Rhs::FieldRef(rng.pick(&fields_of(&[Ty::Bool])).to_string())
        } else {
            Rhs::Lit(V::Bool(rng.bool()))
        };
        Leaf { lhs: Lhs::Field(f.to_string()), op, rhs }
    } else if k < 58 {
        // null tests on any field; one in four on a path that runs THROUGH a scalar or an array
        // (nothing can be stored there: it reads as missing, i.e. null)
        let f = if rng.chance(1, 4) { *rng.pick(&BELOW_A_SCALAR) } else { rng.pick(&schema()).0 };
        Leaf { lhs: Lhs::Field(f.to_string()), op: *rng.pick(&[Op::Eq, Op::Ne]), rhs: Rhs::Lit(V::Null) }
    } else if k < 70 {
        // membership in an array literal
        let (f, ty) = *rng.pick(&schema().into_iter().filter(|(_, t)| matches!(t, Ty::Int | Ty::Str)).collect::<Vec<_>>());
        let n = 1 + rng.below(4);
        let arr: Vec<V> = (0..n).map(|_| gen_value(rng, ty)).collect();
        Leaf { lhs: Lhs::Field(f.to_string()), op: Op::In, rhs: Rhs::Lit(V::Arr(arr)) }
    } else if k < 74 && h.array_contains {
        let rhs = Rhs::Lit(V::Str(rng.pick(&STRS).to_string()));
        Leaf { lhs: Lhs::Field("tags".to_string()), op: Op::Contains, rhs }
    } else if k < 78 && h.undefined_mix {
        // deliberately open combinations
        match rng.below(3) {
            0 => Leaf { lhs: Lhs::Field("s0".into()), op: Op::Lt, rhs: Rhs::Lit(V::Str("m".into())) },
            1 => Leaf { lhs: Lhs::Field("n0".into()), op: Op::Eq, rhs: Rhs::FieldRef("absent_field".into()) },
            _ => Leaf { lhs: Lhs::Field("b0".into()), op: Op::Eq, rhs: Rhs::Lit(V::Int(1)) },
        }
    } else {
        // arithmetic on the left of a comparison
        if rng.chance(1, 6) {
            // `field - a == b - a` / `field + a != b + a` with b from the store's value pool: the
            // comparison holds exactly for some stores, and the literal on the right is often signed
            let f = *rng.pick(&fields_of(&[Ty::Int]));
            let a = *rng.pick(&[1i64, 3, 10, 20, 60]);
            let b = *rng.pick(&INTS[..13]);
            let (sign, lit) = if rng.bool() { ('-', b - a) } else { ('+', b + a) };
            return Leaf {
                lhs: Lhs::Arith(Chain { first: Operand::Field(f.to_string()), rest: vec![(sign, Operand::Int(a))] }),
                op: *rng.pick(&[Op::Eq, Op::Ne, Op::Eq, Op::Le, Op::Gt]),
                rhs: Rhs::Lit(V::Int(lit)),
            };
        }
        let lhs = Lhs::Arith(gen_num_chain(rng, true));
        let op = *rng.pick(&Op::CMP);
        let rhs = match rng.below(6) {
            0..=2 => Rhs::Lit(V::Int(*rng.pick(&[0i64, 1, 2, 3, 5, 10, 20, 100, -1, -5, -10, -47]))),
            3 => Rhs::Lit(V::Float(*rng.pick(&[0.5f64, 2.5, 10.0, -2.5, -0.5]))),
            4 => Rhs::FieldRef(rng.pick(&fields_of(&[Ty::Int, Ty::Float])).to_string()),
            _ => Rhs::Arith(gen_num_chain(rng, false)),
        };
        Leaf { lhs, op, rhs }
    }
}

pub fn gen_cond(rng: &mut Rng, depth: usize, h: &Hostile) -> Cond {
    if depth <= 1 || rng.chance(1, 4) {
        return Cond::Leaf(gen_leaf(rng, h));
    }
    match rng.below(7) {
        0..=2 => Cond::And(Box::new(gen_cond(rng, depth - 1, h)), Box::new(gen_cond(rng, depth - 1, h))),
        3..=5 => Cond::Or(Box::new(gen_cond(rng, depth - 1, h)), Box::new(gen_cond(rng, depth - 1, h))),
        _ => Cond::Not(Box::new(gen_cond(rng, depth - 1, h))),
    }
}

pub const OUT_TARGETS: [&str; 8] = ["out0", "out1", "out2", "Obj.out", "Obj.inner.out", "Flat.out", "New.field", "out_s"];

pub fn gen_set(rng: &mut Rng, h: &Hostile) -> Action {
    // target: mostly output fields, sometimes an input field (so later rules see the change)
    let (target, ty): (String, Option<Ty>) = if rng.chance(2, 3) {
        (rng.pick(&OUT_TARGETS).to_string(), None)
    } else {
        let (p, t) = *rng.pick(&schema().into_iter().filter(|(_, t)| !matches!(t, Ty::ArrStr | Ty::ArrInt)).collect::<Vec<_>>());
        (p.to_string(), Some(t))
    };
    let ty = ty.unwrap_or(*rng.pick(&[Ty::Int, Ty::Float, Ty::Str, Ty::Bool, Ty::Int]));
    let rhs = match (ty, rng.below(10)) {
        (Ty::Int | Ty::Float, 0..=2) => Rhs::Lit(gen_value(rng, ty)),
        (Ty::Int | Ty::Float, 3..=4) => Rhs::FieldRef(rng.pick(&fields_of(&[Ty::Int, Ty::Float])).to_string()),
        (Ty::Int | Ty::Float, _) => {
            let ff = rng.bool();
            Rhs::Arith(gen_num_chain(rng, ff))
        }
        (Ty::Str, 0..=3) if h.fact_name_literals && rng.bool() => Rhs::Lit(V::Str(rng.pick(&schema()).0.to_string())),
        (Ty::Str, 0..=3) => Rhs::Lit(V::Str(rng.pick(&STRS).to_string())),
        (Ty::Str, 4..=5) => Rhs::FieldRef(rng.pick(&fields_of(&[Ty::Str])).to_string()),
        (Ty::Str, _) => Rhs::Arith(gen_str_chain(rng, h.concat_lit_arith_char)),
        (Ty::Bool, 0..=6) => Rhs::Lit(V::Bool(rng.bool())),
        (Ty::Bool, _) => Rhs::FieldRef(rng.pick(&fields_of(&[Ty::Bool])).to_string()),
        _ => Rhs::Lit(V::Int(1)),
    };
    Action::Set { target, rhs }
}

pub fn gen_rule(rng: &mut Rng, idx: usize, max_depth: usize, h: &Hostile) -> RuleAst {
    let depth = 1 + rng.below(max_depth);
    let n_act = 1 + rng.below(3);
    RuleAst {
        name: format!("R{}", idx),
        quoted_name: rng.chance(3, 4),
        description: None,
        attrs: Attrs {
            salience: if rng.chance(2, 3) { Some(*rng.pick(&[0, 1, 1, 2, 5, 10, 10])) } else { None },
            ..Default::default()
        },
        cond: gen_cond(rng, depth, h),
        actions: (0..n_act).map(|_| gen_set(rng, h)).collect(),
    }
}
