//! The generator's own AST of the typed core of GRL, its JSON form and its text printer.

use super::val::V;
use crate::core::Json;
use serde_json::json;

#[derive(Clone, Copy, Debug, PartialEq, Eq, Hash)]
pub enum Op {
    Eq,
    Ne,
    Lt,
    Le,
    Gt,
    Ge,
    Contains,
    StartsWith,
    EndsWith,
    In,
}

impl Op {
    pub const ALL: [Op; 10] = [
        Op::Eq,
        Op::Ne,
        Op::Lt,
        Op::Le,
        Op::Gt,
        Op::Ge,
        Op::Contains,
        Op::StartsWith,
        Op::EndsWith,
        Op::In,
    ];
    pub const CMP: [Op; 6] = [Op::Eq, Op::Ne, Op::Lt, Op::Le, Op::Gt, Op::Ge];
    pub fn text(self) -> &'static str {
        match self {
            Op::Eq => "==",
            Op::Ne => "!=",
            Op::Lt => "<",
            Op::Le => "<=",
            Op::Gt => ">",
            Op::Ge => ">=",
            Op::Contains => "contains",
            Op::StartsWith => "startsWith",
            Op::EndsWith => "endsWith",
            Op::In => "in",
        }
    }
    pub fn from_text(s: &str) -> Option<Op> {
        Op::ALL.iter().copied().find(|o| o.text() == s)
    }
    pub fn is_ordering(self) -> bool {
        matches!(self, Op::Lt | Op::Le | Op::Gt | Op::Ge)
    }
}

/// Operand of an arithmetic chain.
#[derive(Clone, Debug, PartialEq)]
pub enum Operand {
    Field(String),
    Int(i64),
    Float(f64),
    Str(String),
}

/// `first op operand op operand …` without parentheses; `* / %` bind tighter than `+ -`,
/// both left-associative.
#[derive(Clone, Debug, PartialEq)]
pub struct Chain {
    pub first: Operand,
    pub rest: Vec<(char, Operand)>,
}

#[derive(Clone, Debug, PartialEq)]
pub enum Lhs {
    Field(String),
    Arith(Chain),
}

#[derive(Clone, Debug, PartialEq)]
pub enum Rhs {
    Lit(V),
    /// bare identifier / dotted path: a reference to another field
    FieldRef(String),
    Arith(Chain),
}

#[derive(Clone, Debug, PartialEq)]
pub struct Leaf {
    pub lhs: Lhs,
    pub op: Op,
    pub rhs: Rhs,
}

#[derive(Clone, Debug, PartialEq)]
pub enum Cond {
    Leaf(Leaf),
    And(Box<Cond>, Box<Cond>),
    Or(Box<Cond>, Box<Cond>),
    Not(Box<Cond>),
}

impl Cond {
    pub fn depth(&self) -> usize {
        match self {
            Cond::Leaf(_) => 1,
            Cond::And(a, b) | Cond::Or(a, b) => 1 + a.depth().max(b.depth()),
            Cond::Not(a) => 1 + a.depth(),
        }
    }
    pub fn leaves(&self) -> Vec<&Leaf> {
        match self {
            Cond::Leaf(l) => vec![l],
            Cond::And(a, b) | Cond::Or(a, b) => {
                let mut v = a.leaves();
                v.extend(b.leaves());
                v
            }
            Cond::Not(a) => a.leaves(),
        }
    }
}

#[derive(Clone, Debug, PartialEq)]
pub enum Action {
    /// `target = rhs;`
    Set { target: String, rhs: Rhs },
    /// `target += rhs;`
    Append { target: String, rhs: Rhs },
    /// `Log("message");`
    Log(String),
    /// `Retract("Object");`
    Retract(String),
    /// `ActivateAgendaGroup("g");`
    ActivateAgendaGroup(String),
    /// `ScheduleRule(ms, "rule");`
    ScheduleRule(u64, String),
    /// `CompleteWorkflow("w");`
    CompleteWorkflow(String),
    /// `SetWorkflowData("key=value");` — value is a literal
    SetWorkflowData(String, V),
    /// `name(arg, arg, …);` custom call with positional literal / field-reference arguments
    Call(String, Vec<Rhs>),
    /// `$Obj.method(args);`
    Method(String, String, Vec<Rhs>),
}

#[derive(Clone, Debug, PartialEq, Default)]
pub struct Attrs {
    pub salience: Option<i32>,
    pub no_loop: bool,
    pub lock_on_active: bool,
    pub agenda_group: Option<String>,
    pub activation_group: Option<String>,
    /// RFC 3339 text as written
    pub date_effective: Option<String>,
    pub date_expires: Option<String>,
}

#[derive(Clone, Debug, PartialEq)]
pub struct RuleAst {
    pub name: String,
    pub quoted_name: bool,
    pub description: Option<String>,
    pub attrs: Attrs,
    pub cond: Cond,
    pub actions: Vec<Action>,
}

// ---------------------------------------------------------------- printing

pub fn fmt_float(f: f64) -> String {
    let s = format!("{:?}", f);
    if s.contains('e') || s.contains("inf") || s.contains("NaN") {
        // keep generators away from these; fall back to plain decimal
        format!("{:.6}", f)
    } else {
        s
    }
}

pub fn fmt_str_lit(s: &str, single: bool) -> String {
    if single {
        format!("'{}'", s)
    } else {
        format!("\"{}\"", s)
    }
}

pub fn fmt_lit(v: &V) -> String {
    match v {
        V::Null => "null".into(),
        V::Bool(b) => b.to_string(),
        V::Int(i) => i.to_string(),
        V::Float(f) => fmt_float(*f),
        V::Str(s) => fmt_str_lit(s, false),
        V::Arr(a) => format!("[{}]", a.iter().map(fmt_lit).collect::<Vec<_>>().join(", ")),
        V::Obj(_) => "{}".into(),
    }
}

pub fn fmt_operand(o: &Operand) -> String {
    match o {
        Operand::Field(p) => p.clone(),
        Operand::Int(i) => i.to_string(),
        Operand::Float(f) => fmt_float(*f),
        Operand::Str(s) => fmt_str_lit(s, false),
    }
}

pub fn fmt_chain(c: &Chain) -> String {
    let mut s = fmt_operand(&c.first);
    for (op, o) in &c.rest {
        s.push(' ');
        s.push(*op);
        s.push(' ');
        s.push_str(&fmt_operand(o));
    }
    s
}

pub fn fmt_rhs(r: &Rhs) -> String {
    match r {
        Rhs::Lit(v) => fmt_lit(v),
        Rhs::FieldRef(p) => p.clone(),
        Rhs::Arith(c) => fmt_chain(c),
    }
}

pub fn fmt_leaf(l: &Leaf) -> String {
    let lhs = match &l.lhs {
        Lhs::Field(p) => p.clone(),
        Lhs::Arith(c) => fmt_chain(c),
    };
    format!("{} {} {}", lhs, l.op.text(), fmt_rhs(&l.rhs))
}

/// Minimal parenthesisation: Or under And gets parentheses, the operand of `!` always does;
/// a right-nested chain of the same operator keeps its parentheses so that the written shape
/// is the tree's shape.
pub fn fmt_cond(c: &Cond) -> String {
    match c {
        Cond::Leaf(l) => fmt_leaf(l),
        Cond::Not(a) => format!("!({})", fmt_cond(a)),
        Cond::And(a, b) => {
            let pa = matches!(**a, Cond::Or(..));
            let pb = matches!(**b, Cond::Or(..) | Cond::And(..));
            format!("{} && {}", paren_if(pa, fmt_cond(a)), paren_if(pb, fmt_cond(b)))
        }
        Cond::Or(a, b) => {
            let pb = matches!(**b, Cond::Or(..));
            format!("{} || {}", fmt_cond(a), paren_if(pb, fmt_cond(b)))
        }
    }
}

fn paren_if(p: bool, s: String) -> String {
    if p {
        format!("({})", s)
    } else {
        s
    }
}

pub fn fmt_action(a: &Action) -> String {
    match a {
        Action::Set { target, rhs } => format!("{} = {}", target, fmt_rhs(rhs)),
        Action::Append { target, rhs } => format!("{} += {}", target, fmt_rhs(rhs)),
        Action::Log(m) => format!("Log({})", fmt_str_lit(m, false)),
        Action::Retract(o) => format!("Retract({})", fmt_str_lit(o, false)),
        Action::ActivateAgendaGroup(g) => format!("ActivateAgendaGroup({})", fmt_str_lit(g, false)),
        Action::ScheduleRule(ms, r) => format!("ScheduleRule({}, {})", ms, fmt_str_lit(r, false)),
        Action::CompleteWorkflow(w) => format!("CompleteWorkflow({})", fmt_str_lit(w, false)),
        Action::SetWorkflowData(k, v) => format!("SetWorkflowData(\"{}={}\")", k, match v {
            V::Str(s) => s.clone(),
            other => fmt_lit(other),
        }),
        Action::Call(name, args) => format!("{}({})", name, args.iter().map(fmt_rhs).collect::<Vec<_>>().join(", ")),
        Action::Method(obj, m, args) => format!("${}.{}({})", obj, m, args.iter().map(fmt_rhs).collect::<Vec<_>>().join(", ")),
    }
}

pub fn fmt_attrs(a: &Attrs) -> Vec<String> {
    let mut v = Vec::new();
    if let Some(s) = a.salience {
        v.push(format!("salience {}", s));
    }
    if a.no_loop {
        v.push("no-loop true".to_string());
    }
    if a.lock_on_active {
        v.push("lock-on-active true".to_string());
    }
    if let Some(g) = &a.agenda_group {
        v.push(format!("agenda-group \"{}\"", g));
    }
    if let Some(g) = &a.activation_group {
        v.push(format!("activation-group \"{}\"", g));
    }
    if let Some(d) = &a.date_effective {
        v.push(format!("date-effective \"{}\"", d));
    }
    if let Some(d) = &a.date_expires {
        v.push(format!("date-expires \"{}\"", d));
    }
    v
}

/// Canonical multi-line layout (what the documentation's examples look like).
pub fn fmt_rule(r: &RuleAst) -> String {
    let mut s = String::from("rule ");
    if r.quoted_name {
        s.push_str(&format!("\"{}\"", r.name));
    } else {
        s.push_str(&r.name);
    }
    if let Some(d) = &r.description {
        s.push_str(&format!(" \"{}\"", d));
    }
    for a in fmt_attrs(&r.attrs) {
        s.push(' ');
        s.push_str(&a);
    }
    s.push_str(" {\n    when\n        ");
    s.push_str(&fmt_cond(&r.cond));
    s.push_str("\n    then\n");
    for a in &r.actions {
        s.push_str("        ");
        s.push_str(&fmt_action(a));
        s.push_str(";\n");
    }
    s.push_str("}\n");
    s
}

pub fn fmt_rules(rs: &[RuleAst]) -> String {
    rs.iter().map(fmt_rule).collect::<Vec<_>>().join("\n")
}

// ---------------------------------------------------------------- JSON

fn operand_json(o: &Operand) -> Json {
    match o {
        Operand::Field(p) => json!({ "field": p }),
        Operand::Int(i) => json!({ "i": i }),
        Operand::Float(f) => json!({ "f": f }),
        Operand::Str(s) => json!({ "s": s }),
    }
}
fn operand_from(j: &Json) -> Option<Operand> {
    if let Some(p) = j.get("field") {
        return Some(Operand::Field(p.as_str()?.into()));
    }
    if let Some(i) = j.get("i") {
        return Some(Operand::Int(i.as_i64()?));
    }
    if let Some(f) = j.get("f") {
        return Some(Operand::Float(f.as_f64()?));
    }
    if let Some(s) = j.get("s") {
        return Some(Operand::Str(s.as_str()?.into()));
    }
    None
}
fn chain_json(c: &Chain) -> Json {
    json!({
        "first": operand_json(&c.first),
        "rest": c.rest.iter().map(|(op, o)| json!([op.to_string(), operand_json(o)])).collect::<Vec<_>>(),
    })
}
fn chain_from(j: &Json) -> Option<Chain> {
    let first = operand_from(j.get("first")?)?;
    let mut rest = Vec::new();
    for e in j.get("rest")?.as_array()? {
        let a = e.as_array()?;
        rest.push((a.first()?.as_str()?.chars().next()?, operand_from(a.get(1)?)?));
    }
    Some(Chain { first, rest })
}
pub fn rhs_json(r: &Rhs) -> Json {
    match r {
        Rhs::Lit(v) => json!({ "lit": v.to_json() }),
        Rhs::FieldRef(p) => json!({ "ref": p }),
        Rhs::Arith(c) => json!({ "arith": chain_json(c) }),
    }
}
pub fn rhs_from(j: &Json) -> Option<Rhs> {
    if let Some(v) = j.get("lit") {
        return Some(Rhs::Lit(V::from_json(v)?));
    }
    if let Some(p) = j.get("ref") {
        return Some(Rhs::FieldRef(p.as_str()?.into()));
    }
    if let Some(c) = j.get("arith") {
        return Some(Rhs::Arith(chain_from(c)?));
    }
    None
}
pub fn leaf_json(l: &Leaf) -> Json {
    json!({
        "lhs": match &l.lhs { Lhs::Field(p) => json!({"field": p}), Lhs::Arith(c) => json!({"arith": chain_json(c)}) },
        "op": l.op.text(),
        "rhs": rhs_json(&l.rhs),
    })
}
pub fn leaf_from(j: &Json) -> Option<Leaf> {
    let l = j.get("lhs")?;
    let lhs = if let Some(p) = l.get("field") {
        Lhs::Field(p.as_str()?.into())
    } else {
        Lhs::Arith(chain_from(l.get("arith")?)?)
    };
    Some(Leaf {
        lhs,
        op: Op::from_text(j.get("op")?.as_str()?)?,
        rhs: rhs_from(j.get("rhs")?)?,
    })
}
pub fn cond_json(c: &Cond) -> Json {
    match c {
        Cond::Leaf(l) => json!({ "leaf": leaf_json(l) }),
        Cond::And(a, b) => json!({ "and": [cond_json(a), cond_json(b)] }),
        Cond::Or(a, b) => json!({ "or": [cond_json(a), cond_json(b)] }),
        Cond::Not(a) => json!({ "not": cond_json(a) }),
    }
}
pub fn cond_from(j: &Json) -> Option<Cond> {
    if let Some(l) = j.get("leaf") {
        return Some(Cond::Leaf(leaf_from(l)?));
    }
    if let Some(a) = j.get("and") {
        let a = a.as_array()?;
        return Some(Cond::And(Box::new(cond_from(a.first()?)?), Box::new(cond_from(a.get(1)?)?)));
    }
    if let Some(a) = j.get("or") {
        let a = a.as_array()?;
        return Some(Cond::Or(Box::new(cond_from(a.first()?)?), Box::new(cond_from(a.get(1)?)?)));
    }
    if let Some(a) = j.get("not") {
        return Some(Cond::Not(Box::new(cond_from(a)?)));
    }
    None
}
pub fn action_json(a: &Action) -> Json {
    match a {
        Action::Set { target, rhs } => json!({ "set": target, "rhs": rhs_json(rhs) }),
        Action::Append { target, rhs } => json!({ "append": target, "rhs": rhs_json(rhs) }),
        Action::Log(m) => json!({ "log": m }),
        Action::Retract(o) => json!({ "retract": o }),
        Action::ActivateAgendaGroup(g) => json!({ "activate_agenda_group": g }),
        Action::ScheduleRule(ms, r) => json!({ "schedule_rule": [ms, r] }),
        Action::CompleteWorkflow(w) => json!({ "complete_workflow": w }),
        Action::SetWorkflowData(k, v) => json!({ "set_workflow_data": [k, v.to_json()] }),
        Action::Call(n, args) => json!({ "call": n, "args": args.iter().map(rhs_json).collect::<Vec<_>>() }),
        Action::Method(o, m, args) => json!({ "method": [o, m], "args": args.iter().map(rhs_json).collect::<Vec<_>>() }),
    }
}
pub fn action_from(j: &Json) -> Option<Action> {
    if let Some(t) = j.get("set") {
        return Some(Action::Set { target: t.as_str()?.into(), rhs: rhs_from(j.get("rhs")?)? });
    }
    if let Some(t) = j.get("append") {
        return Some(Action::Append { target: t.as_str()?.into(), rhs: rhs_from(j.get("rhs")?)? });
    }
    if let Some(m) = j.get("log") {
        return Some(Action::Log(m.as_str()?.into()));
    }
    if let Some(m) = j.get("retract") {
        return Some(Action::Retract(m.as_str()?.into()));
    }
    if let Some(m) = j.get("activate_agenda_group") {
        return Some(Action::ActivateAgendaGroup(m.as_str()?.into()));
    }
    if let Some(m) = j.get("schedule_rule") {
        let a = m.as_array()?;
        return Some(Action::ScheduleRule(a.first()?.as_u64()?, a.get(1)?.as_str()?.into()));
    }
    if let Some(m) = j.get("complete_workflow") {
        return Some(Action::CompleteWorkflow(m.as_str()?.into()));
    }
    if let Some(m) = j.get("set_workflow_data") {
        let a = m.as_array()?;
        return Some(Action::SetWorkflowData(a.first()?.as_str()?.into(), V::from_json(a.get(1)?)?));
    }
    if let Some(n) = j.get("call") {
        let args = j.get("args")?.as_array()?.iter().map(rhs_from).collect::<Option<Vec<_>>>()?;
        return Some(Action::Call(n.as_str()?.into(), args));
    }
    if let Some(n) = j.get("method") {
        let a = n.as_array()?;
        let args = j.get("args")?.as_array()?.iter().map(rhs_from).collect::<Option<Vec<_>>>()?;
        return Some(Action::Method(a.first()?.as_str()?.into(), a.get(1)?.as_str()?.into(), args));
    }
    None
}
pub fn rule_json(r: &RuleAst) -> Json {
    json!({
        "name": r.name,
        "quoted_name": r.quoted_name,
        "description": r.description,
        "salience": r.attrs.salience,
        "no_loop": r.attrs.no_loop,
        "lock_on_active": r.attrs.lock_on_active,
        "agenda_group": r.attrs.agenda_group,
        "activation_group": r.attrs.activation_group,
        "date_effective": r.attrs.date_effective,
        "date_expires": r.attrs.date_expires,
        "cond": cond_json(&r.cond),
        "actions": r.actions.iter().map(action_json).collect::<Vec<_>>(),
        "text": fmt_rule(r),
    })
}
pub fn rule_from(j: &Json) -> Option<RuleAst> {
    let s = |k: &str| j.get(k).and_then(|v| v.as_str()).map(|s| s.to_string());
    Some(RuleAst {
        name: s("name")?,
        quoted_name: j.get("quoted_name").and_then(|v| v.as_bool()).unwrap_or(true),
        description: s("description"),
        attrs: Attrs {
            salience: j.get("salience").and_then(|v| v.as_i64()).map(|v| v as i32),
            no_loop: j.get("no_loop").and_then(|v| v.as_bool()).unwrap_or(false),
            lock_on_active: j.get("lock_on_active").and_then(|v| v.as_bool()).unwrap_or(false),
            agenda_group: s("agenda_group"),
            activation_group: s("activation_group"),
            date_effective: s("date_effective"),
            date_expires: s("date_expires"),
        },
        cond: cond_from(j.get("cond")?)?,
        actions: j.get("actions")?.as_array()?.iter().map(action_from).collect::<Option<Vec<_>>>()?,
    })
}
