//! Running a generated rule set through the real forward-chaining engine and recording what
//! happened at the API boundary (callback firings with fact snapshots, result counters, pass
//! markers from hook H2). Shared by C01 and C03.

use super::ast::*;
use super::val::Store;
use crate::pan;
use rust_rule_engine::verif_hooks::{self, Event};
use rust_rule_engine::{EngineConfig, GRLParser, KnowledgeBase, RustRuleEngine};

#[derive(Clone, Debug)]
pub struct Firing {
    pub rule: String,
    /// zero-based pass in which it fired (from the H2 markers seen so far), None if no marker
    pub pass: Option<usize>,
    /// the fact store right after the firing; Err(key) if a value was an unevaluated expression
    pub after: Result<Store, String>,
}

#[derive(Clone, Debug)]
pub enum RunEnd {
    Ok { cycle_count: usize, rules_fired: usize, rules_evaluated: usize },
    Err(String),
    Panic(pan::PanicInfo),
    /// the harness's logical-step bound tripped (more callbacks than max_cycles × #rules, or
    /// more passes than max_cycles + 1)
    Runaway(&'static str),
}

#[derive(Clone, Debug)]
pub struct Run {
    pub parse_error: Option<String>,
    pub parsed_rules: usize,
    pub firings: Vec<Firing>,
    /// number of ForwardPass markers observed in total
    pub passes: usize,
    pub end: RunEnd,
    pub final_store: Result<Store, String>,
}

struct RunawayMarker;

/// Parse `text`, load the rules in source order, run `execute_with_callback` once.
pub fn run_forward(text: &str, n_rules_expected: usize, store: &Store, max_cycles: usize) -> Run {
    run_forward_cfg(text, n_rules_expected, store, max_cycles, &[])
}

/// As `run_forward`, with some rules disabled through `KnowledgeBase::set_rule_enabled`.
pub fn run_forward_cfg(text: &str, n_rules_expected: usize, store: &Store, max_cycles: usize, disabled: &[String]) -> Run {
    let mut run = Run {
        parse_error: None,
        parsed_rules: 0,
        firings: Vec::new(),
        passes: 0,
        end: RunEnd::Err("not run".into()),
        final_store: Ok(Store::new()),
    };
    let rules = match pan::catch_frames(|| GRLParser::parse_rules(text)) {
        Ok(Ok(r)) => r,
        Ok(Err(e)) => {
            run.parse_error = Some(format!("{}", e));
            return run;
        }
        Err(p) => {
            run.parse_error = Some(format!("panic: {}", p.msg));
            return run;
        }
    };
    run.parsed_rules = rules.len();
    if rules.len() != n_rules_expected {
        run.parse_error = Some(format!("parsed {} rules, wrote {}", rules.len(), n_rules_expected));
        return run;
    }
    let kb = KnowledgeBase::new("verif");
    for r in rules {
        if let Err(e) = kb.add_rule(r) {
            run.parse_error = Some(format!("add_rule: {}", e));
            return run;
        }
    }
    for d in disabled {
        let _ = kb.set_rule_enabled(d, false);
    }
    let cfg = EngineConfig {
        max_cycles,
        timeout: None,
        enable_stats: false,
        debug_mode: false,
    };
    let mut engine = RustRuleEngine::with_config(kb, cfg);
    let facts = store.to_facts();
    let _ = verif_hooks::take_events();
    let bound = max_cycles.saturating_mul(n_rules_expected.max(1)) + 1;
    let mut firings: Vec<Firing> = Vec::new();
    // passes are counted by an observer on the H2 markers; it also enforces the logical step
    // bound "no more than max_cycles + 1 passes" by unwinding out of a runaway loop
    let passes = std::rc::Rc::new(std::cell::Cell::new(0usize));
    let runaway = std::rc::Rc::new(std::cell::Cell::new(""));
    {
        let passes = passes.clone();
        let runaway = runaway.clone();
        let pass_bound = max_cycles + 1;
        verif_hooks::set_event_observer(Some(Box::new(move |ev| {
            let Event::ForwardPass { .. } = ev;
            passes.set(passes.get() + 1);
            if passes.get() > pass_bound {
                runaway.set("more passes than max_cycles + 1");
                std::panic::panic_any(RunawayMarker);
            }
        })));
    }
    let res = pan::catch_frames(|| {
        engine.execute_with_callback(&facts, |name, f| {
            let after = Store::from_engine_map(&f.get_all_facts());
            let p = passes.get();
            firings.push(Firing {
                rule: name.to_string(),
                pass: if p > 0 { Some(p - 1) } else { None },
                after,
            });
            if firings.len() > bound {
                runaway.set("more callbacks than max_cycles x #rules");
                std::panic::panic_any(RunawayMarker);
            }
        })
    });
    verif_hooks::set_event_observer(None);
    let _ = verif_hooks::take_events();
    run.passes = passes.get();
    run.end = match res {
        Ok(Ok(r)) => RunEnd::Ok {
            cycle_count: r.cycle_count,
            rules_fired: r.rules_fired,
            rules_evaluated: r.rules_evaluated,
        },
        Ok(Err(e)) => RunEnd::Err(format!("{}", e)),
        Err(p) => {
            if !runaway.get().is_empty() {
                RunEnd::Runaway(runaway.get())
            } else {
                RunEnd::Panic(p)
            }
        }
    };
    run.firings = firings;
    run.final_store = Store::from_engine_map(&facts.get_all_facts());
    run
}

/// Rank order of the rule set: salience descending, insertion order among equals.
pub fn rank_order(rules: &[RuleAst]) -> Vec<usize> {
    let mut idx: Vec<usize> = (0..rules.len()).collect();
    idx.sort_by_key(|&i| (std::cmp::Reverse(rules[i].attrs.salience.unwrap_or(0)), i));
    idx
}
