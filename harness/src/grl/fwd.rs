//! Running a generated rule set through the real forward-chaining engine and recording what
//! happened at the API boundary (callback firings with fact snapshots, result counters, pass
//! markers from hook H2). Shared by C01 and C03.

use super::ast::*;
use super::val::Store;
use crate::pan;
use rust_rule_engine::verif_hooks::{self, Event};
use rust_rule_engine::{EngineConfig, GRLParser, KnowledgeBase, RustRuleEngine};

#[derive(Clone, Debug)]
pub struct Firing {
    pub rule: String,
    /// zero-based pass in which it fired (from the H2 markers seen so far), None if no marker
    pub pass: Option<usize>,
    /// the fact store right after the firing; Err(key) if a value was an unevaluated expression
    pub after: Result<Store, String>,
}

#[derive(Clone, Debug)]
pub enum RunEnd {
    Ok { cycle_count: usize, rules_fired: usize, rules_evaluated: usize },
    Err(String),
    Panic(pan::PanicInfo),
    /// the harness's logical-step bound tripped (more callbacks than max_cycles × #rules, or
    /// more passes than max_cycles + 1)
    Runaway(&'static str),
}

#[derive(Clone, Debug)]
pub struct Run {
    pub parse_error: Option<String>,
    pub parsed_rules: usize,
    pub firings: Vec<Firing>,
    /// number of ForwardPass markers observed in total
    pub passes: usize,
    pub end: RunEnd,
    pub final_store: Result<Store, String>,
}

struct RunawayMarker;

/// Which of the engine's two copies of the forward-chaining loop is driven.
#[derive(Clone, Copy, Debug, PartialEq, Eq)]
pub enum Entry {
    /// `execute_with_callback`: firings observed through the callback
    WithCallback,
    /// `execute` (= `execute_at_time(now)`): firings observed through a custom action handler
    /// `Trace("<rule>")` appended as the last action of every rule
    Execute,
}

impl Entry {
    pub fn name(self) -> &'static str {
        match self {
            Entry::WithCallback => "execute_with_callback",
            Entry::Execute => "execute",
        }
    }
    pub fn from_name(s: &str) -> Entry {
        if s == "execute" {
            Entry::Execute
        } else {
            Entry::WithCallback
        }
    }
}

/// Render the rules, load them in source order and run the chosen entry point once.
pub fn run_forward_rules(rules: &[RuleAst], store: &Store, max_cycles: usize, disabled: &[String], entry: Entry) -> Run {
    match entry {
        Entry::WithCallback => run_forward_impl(&fmt_rules(rules), rules.len(), store, max_cycles, disabled, entry),
        Entry::Execute => {
            let traced: Vec<RuleAst> = rules
                .iter()
                .map(|r| {
                    let mut r = r.clone();
                    r.actions.push(Action::Call("Trace".into(), vec![Rhs::Lit(super::val::V::Str(r.name.clone()))]));
                    r
                })
                .collect();
            run_forward_impl(&fmt_rules(&traced), rules.len(), store, max_cycles, disabled, entry)
        }
    }
}

/// Parse `text`, load the rules in source order, run `execute_with_callback` once.
pub fn run_forward(text: &str, n_rules_expected: usize, store: &Store, max_cycles: usize) -> Run {
    run_forward_impl(text, n_rules_expected, store, max_cycles, &[], Entry::WithCallback)
}

/// As `run_forward`, with some rules disabled through `KnowledgeBase::set_rule_enabled`.
pub fn run_forward_cfg(text: &str, n_rules_expected: usize, store: &Store, max_cycles: usize, disabled: &[String]) -> Run {
    run_forward_impl(text, n_rules_expected, store, max_cycles, disabled, Entry::WithCallback)
}

thread_local! {
    static TRACE_SINK: std::cell::RefCell<Vec<(String, Result<Store, String>)>> = const { std::cell::RefCell::new(Vec::new()) };
    static PASSES: std::cell::Cell<usize> = const { std::cell::Cell::new(0) };
    static RUNAWAY: std::cell::Cell<&'static str> = const { std::cell::Cell::new("") };
}

/// thread-local stand-ins for Rc<Cell<_>> (the action handler must be Send + Sync)
#[derive(Clone, Copy)]
struct TlPasses;
impl TlPasses {
    fn get(&self) -> usize {
        PASSES.with(|p| p.get())
    }
    fn set(&self, v: usize) {
        PASSES.with(|p| p.set(v))
    }
    fn clone(&self) -> TlPasses {
        TlPasses
    }
}
#[derive(Clone, Copy)]
struct TlRunaway;
impl TlRunaway {
    fn get(&self) -> &'static str {
        RUNAWAY.with(|p| p.get())
    }
    fn set(&self, v: &'static str) {
        RUNAWAY.with(|p| p.set(v))
    }
    fn clone(&self) -> TlRunaway {
        TlRunaway
    }
}

fn run_forward_impl(text: &str, n_rules_expected: usize, store: &Store, max_cycles: usize, disabled: &[String], entry: Entry) -> Run {
    let mut run = Run {
        parse_error: None,
        parsed_rules: 0,
        firings: Vec::new(),
        passes: 0,
        end: RunEnd::Err("not run".into()),
        final_store: Ok(Store::new()),
    };
    let rules = match pan::catch_frames(|| GRLParser::parse_rules(text)) {
        Ok(Ok(r)) => r,
        Ok(Err(e)) => {
            run.parse_error = Some(format!("{}", e));
            return run;
        }
        Err(p) => {
            run.parse_error = Some(format!("panic: {}", p.msg));
            return run;
        }
    };
    run.parsed_rules = rules.len();
    if rules.len() != n_rules_expected {
        run.parse_error = Some(format!("parsed {} rules, wrote {}", rules.len(), n_rules_expected));
        return run;
    }
    let kb = KnowledgeBase::new("verif");
    for r in rules {
        if let Err(e) = kb.add_rule(r) {
            run.parse_error = Some(format!("add_rule: {}", e));
            return run;
        }
    }
    for d in disabled {
        let _ = kb.set_rule_enabled(d, false);
    }
    let cfg = EngineConfig {
        max_cycles,
        timeout: None,
        enable_stats: false,
        debug_mode: false,
    };
    let mut engine = RustRuleEngine::with_config(kb, cfg);
    let facts = store.to_facts();
    let _ = verif_hooks::take_events();
    let bound = max_cycles.saturating_mul(n_rules_expected.max(1)) + 1;
    let mut firings: Vec<Firing> = Vec::new();
    // passes are counted by an observer on the H2 markers; it also enforces the logical step
    // bound "no more than max_cycles + 1 passes" by unwinding out of a runaway loop
    let passes = TlPasses;
    let runaway = TlRunaway;
    passes.set(0);
    runaway.set("");
    {
        let passes = passes.clone();
        let runaway = runaway.clone();
        let pass_bound = max_cycles + 1;
        verif_hooks::set_event_observer(Some(Box::new(move |ev| {
            #[allow(irrefutable_let_patterns)]
            let Event::ForwardPass { .. } = ev else { return };
            passes.set(passes.get() + 1);
            if passes.get() > pass_bound {
                runaway.set("more passes than max_cycles + 1");
                std::panic::panic_any(RunawayMarker);
            }
        })));
    }
    let res = match entry {
        Entry::WithCallback => pan::catch_frames(|| {
            engine.execute_with_callback(&facts, |name, f| {
                let after = Store::from_engine_map(&f.get_all_facts());
                let p = passes.get();
                firings.push(Firing {
                    rule: name.to_string(),
                    pass: if p > 0 { Some(p - 1) } else { None },
                    after,
                });
                if firings.len() > bound {
                    runaway.set("more callbacks than max_cycles x #rules");
                    std::panic::panic_any(RunawayMarker);
                }
            })
        }),
        Entry::Execute => {
            TRACE_SINK.with(|t| t.borrow_mut().clear());
            let passes2 = passes.clone();
            let runaway2 = runaway.clone();
            // the handler cannot borrow `firings` (it must be 'static): it records
            // (rule, pass, snapshot) into a thread-local that is drained afterwards
            engine.register_action_handler("Trace", move |params, f| {
                let name = match params.get("0") {
                    Some(rust_rule_engine::Value::String(s)) => s.clone(),
                    other => format!("{:?}", other),
                };
                let after = Store::from_engine_map(&f.get_all_facts());
                let p = passes2.get();
                let n = TRACE_SINK.with(|t| {
                    let mut t = t.borrow_mut();
                    t.push((format!("{}\u{1f}{}", p, name), after));
                    t.len()
                });
                if n > bound {
                    runaway2.set("more firings than max_cycles x #rules");
                    std::panic::panic_any(RunawayMarker);
                }
                Ok(())
            });
            let r = pan::catch_frames(|| engine.execute(&facts));
            for (tag, after) in TRACE_SINK.with(|t| std::mem::take(&mut *t.borrow_mut())) {
                let (p, name) = tag.split_once('\u{1f}').unwrap_or(("0", tag.as_str()));
                let p: usize = p.parse().unwrap_or(0);
                firings.push(Firing { rule: name.to_string(), pass: if p > 0 { Some(p - 1) } else { None }, after });
            }
            r
        }
    };
    verif_hooks::set_event_observer(None);
    let _ = verif_hooks::take_events();
    run.passes = passes.get();
    run.end = match res {
        Ok(Ok(r)) => RunEnd::Ok {
            cycle_count: r.cycle_count,
            rules_fired: r.rules_fired,
            rules_evaluated: r.rules_evaluated,
        },
        Ok(Err(e)) => RunEnd::Err(format!("{}", e)),
        Err(p) => {
            if !runaway.get().is_empty() {
                RunEnd::Runaway(runaway.get())
            } else {
                RunEnd::Panic(p)
            }
        }
    };
    run.firings = firings;
    run.final_store = Store::from_engine_map(&facts.get_all_facts());
    run
}

/// Rank order of the rule set: salience descending, insertion order among equals.
pub fn rank_order(rules: &[RuleAst]) -> Vec<usize> {
    let mut idx: Vec<usize> = (0..rules.len()).collect();
    idx.sort_by_key(|&i| (std::cmp::Reverse(rules[i].attrs.salience.unwrap_or(0)), i));
    idx
}

// ------------------------------------------------------------------------------------------
// A session: one engine and one fact store, several calls (C03 histories).

pub struct FwdSession {
    engine: RustRuleEngine,
    facts: rust_rule_engine::Facts,
    n: usize,
    max_cycles: usize,
    /// the parsed rules as first added (for remove / re-add between calls)
    parsed: Vec<rust_rule_engine::Rule>,
}

impl FwdSession {
    /// Every rule gets `Trace("<name>")` appended as its last action; the handler is registered
    /// once. Custom actions other than `Trace` stay unregistered: a rule calling one makes the
    /// call return `Err` (used to exercise error paths).
    pub fn new(rules: &[RuleAst], store: &Store, max_cycles: usize, disabled: &[String]) -> Result<FwdSession, String> {
        let traced: Vec<RuleAst> = rules
            .iter()
            .map(|r| {
                let mut r = r.clone();
                r.actions.push(Action::Call("Trace".into(), vec![Rhs::Lit(super::val::V::Str(r.name.clone()))]));
                r
            })
            .collect();
        let text = fmt_rules(&traced);
        let parsed = match pan::catch_frames(|| GRLParser::parse_rules(&text)) {
            Ok(Ok(r)) => r,
            Ok(Err(e)) => return Err(format!("{}", e)),
            Err(p) => return Err(format!("panic: {}", p.msg)),
        };
        if parsed.len() != rules.len() {
            return Err(format!("parsed {} rules, wrote {}", parsed.len(), rules.len()));
        }
        let kb = KnowledgeBase::new("verif");
        let kept = parsed.clone();
        for r in parsed {
            kb.add_rule(r).map_err(|e| format!("add_rule: {}", e))?;
        }
        for d in disabled {
            let _ = kb.set_rule_enabled(d, false);
        }
        let cfg = EngineConfig { max_cycles, timeout: None, enable_stats: false, debug_mode: false };
        let mut engine = RustRuleEngine::with_config(kb, cfg);
        engine.register_action_handler("Trace", move |params, f| {
            let name = match params.get("0") {
                Some(rust_rule_engine::Value::String(s)) => s.clone(),
                other => format!("{:?}", other),
            };
            let after = Store::from_engine_map(&f.get_all_facts());
            let p = PASSES.with(|p| p.get());
            TRACE_SINK.with(|t| t.borrow_mut().push((format!("{}\u{1f}{}", p, name), after)));
            Ok(())
        });
        Ok(FwdSession { engine, facts: store.to_facts(), n: rules.len(), max_cycles, parsed: kept })
    }

    /// `knowledge_base().remove_rule(name)` between two calls; true when the rule was there
    pub fn remove_rule(&mut self, name: &str) -> bool {
        matches!(pan::catch(|| self.engine.knowledge_base().remove_rule(name)), Ok(Ok(true)))
    }

    /// add the rule of that name again, as first parsed (it comes back enabled)
    pub fn add_rule_again(&mut self, name: &str) -> bool {
        let Some(r) = self.parsed.iter().find(|r| r.name == name).cloned() else { return false };
        matches!(pan::catch(|| self.engine.knowledge_base().add_rule(r)), Ok(Ok(_)))
    }

    pub fn current_store(&self) -> Result<Store, String> {
        Store::from_engine_map(&self.facts.get_all_facts())
    }

    /// One call on the shared engine and facts.
    /// The caller opens an undo frame on the fact store and leaves it open (a what-if run).
    pub fn open_undo_frame(&self) {
        self.facts.begin_undo_frame();
    }

    pub fn run(&mut self, entry: Entry) -> Run {
        let mut run = Run {
            parse_error: None,
            parsed_rules: self.n,
            firings: Vec::new(),
            passes: 0,
            end: RunEnd::Err("not run".into()),
            final_store: Ok(Store::new()),
        };
        let _ = verif_hooks::take_events();
        TRACE_SINK.with(|t| t.borrow_mut().clear());
        PASSES.with(|p| p.set(0));
        RUNAWAY.with(|r| r.set(""));
        let pass_bound = self.max_cycles + 1;
        let fire_bound = self.max_cycles.saturating_mul(self.n.max(1)) + 1;
        verif_hooks::set_event_observer(Some(Box::new(move |ev| {
            #[allow(irrefutable_let_patterns)]
            let Event::ForwardPass { .. } = ev else { return };
            let p = PASSES.with(|p| {
                p.set(p.get() + 1);
                p.get()
            });
            let fired = TRACE_SINK.with(|t| t.borrow().len());
            if p > pass_bound {
                RUNAWAY.with(|r| r.set("more passes than max_cycles + 1"));
                std::panic::panic_any(RunawayMarker);
            }
            if fired > fire_bound {
                RUNAWAY.with(|r| r.set("more firings than max_cycles x #rules"));
                std::panic::panic_any(RunawayMarker);
            }
        })));
        let engine = &mut self.engine;
        let facts = &self.facts;
        let res = match entry {
            Entry::WithCallback => pan::catch_frames(|| engine.execute_with_callback(facts, |_n, _f| {})),
            Entry::Execute => pan::catch_frames(|| engine.execute(facts)),
        };
        verif_hooks::set_event_observer(None);
        let _ = verif_hooks::take_events();
        for (tag, after) in TRACE_SINK.with(|t| std::mem::take(&mut *t.borrow_mut())) {
            let (p, name) = tag.split_once('\u{1f}').unwrap_or(("0", tag.as_str()));
            let p: usize = p.parse().unwrap_or(0);
            run.firings.push(Firing { rule: name.to_string(), pass: if p > 0 { Some(p - 1) } else { None }, after });
        }
        run.passes = PASSES.with(|p| p.get());
        let runaway = RUNAWAY.with(|r| r.get());
        run.end = match res {
            Ok(Ok(r)) => RunEnd::Ok { cycle_count: r.cycle_count, rules_fired: r.rules_fired, rules_evaluated: r.rules_evaluated },
            Ok(Err(e)) => RunEnd::Err(format!("{}", e)),
            Err(p) => {
                if !runaway.is_empty() {
                    RunEnd::Runaway(runaway)
                } else {
                    RunEnd::Panic(p)
                }
            }
        };
        run.final_store = self.current_store();
        run
    }
}
