//! The harness's own value and fact-store model (independent of the library's `Value`), with
//! conversions at the boundary and a JSON form that keeps Integer and Float apart.

use crate::core::Json;
use rust_rule_engine::Value;
use serde_json::json;
use std::collections::{BTreeMap, HashMap};

#[derive(Clone, Debug, PartialEq)]
pub enum V {
    Null,
    Bool(bool),
    Int(i64),
    Float(f64),
    Str(String),
    Arr(Vec<V>),
    Obj(BTreeMap<String, V>),
}

impl V {
    pub fn type_name(&self) -> &'static str {
        match self {
            V::Null => "null",
            V::Bool(_) => "bool",
            V::Int(_) => "int",
            V::Float(_) => "float",
            V::Str(_) => "string",
            V::Arr(_) => "array",
            V::Obj(_) => "object",
        }
    }
    pub fn to_engine(&self) -> Value {
        match self {
            V::Null => Value::Null,
            V::Bool(b) => Value::Boolean(*b),
            V::Int(i) => Value::Integer(*i),
            V::Float(f) => Value::Number(*f),
            V::Str(s) => Value::String(s.clone()),
            V::Arr(a) => Value::Array(a.iter().map(|v| v.to_engine()).collect()),
            V::Obj(o) => Value::Object(o.iter().map(|(k, v)| (k.clone(), v.to_engine())).collect()),
        }
    }
    /// None when the engine value contains an unevaluated `Expression`.
    pub fn from_engine(v: &Value) -> Option<V> {
        Some(match v {
            Value::Null => V::Null,
            Value::Boolean(b) => V::Bool(*b),
            Value::Integer(i) => V::Int(*i),
            Value::Number(f) => V::Float(*f),
            Value::String(s) => V::Str(s.clone()),
            Value::Array(a) => V::Arr(a.iter().map(V::from_engine).collect::<Option<Vec<_>>>()?),
            Value::Object(o) => {
                let mut m = BTreeMap::new();
                for (k, v) in o {
                    m.insert(k.clone(), V::from_engine(v)?);
                }
                V::Obj(m)
            }
            Value::Expression(_) => return None,
        })
    }
    pub fn to_json(&self) -> Json {
        match self {
            V::Null => Json::Null,
            V::Bool(b) => json!({ "b": b }),
            V::Int(i) => json!({ "i": i }),
            V::Float(f) => {
                if f.is_finite() && !(*f == 0.0 && f.is_sign_negative()) {
                    json!({ "f": f })
                } else {
                    json!({ "f": format!("{:?}", f) })
                }
            }
            V::Str(s) => json!({ "s": s }),
            V::Arr(a) => json!({ "a": a.iter().map(|v| v.to_json()).collect::<Vec<_>>() }),
            V::Obj(o) => {
                let m: serde_json::Map<String, Json> = o.iter().map(|(k, v)| (k.clone(), v.to_json())).collect();
                json!({ "o": m })
            }
        }
    }
    pub fn from_json(j: &Json) -> Option<V> {
        if j.is_null() {
            return Some(V::Null);
        }
        let o = j.as_object()?;
        if let Some(b) = o.get("b") {
            return Some(V::Bool(b.as_bool()?));
        }
        if let Some(i) = o.get("i") {
            return Some(V::Int(i.as_i64()?));
        }
        if let Some(f) = o.get("f") {
            if let Some(x) = f.as_f64() {
                return Some(V::Float(x));
            }
            return Some(V::Float(match f.as_str()? {
                "NaN" => f64::NAN,
                "inf" => f64::INFINITY,
                "-inf" => f64::NEG_INFINITY,
                "-0.0" => -0.0,
                s => s.parse().ok()?,
            }));
        }
        if let Some(s) = o.get("s") {
            return Some(V::Str(s.as_str()?.to_string()));
        }
        if let Some(a) = o.get("a") {
            return Some(V::Arr(a.as_array()?.iter().map(V::from_json).collect::<Option<Vec<_>>>()?));
        }
        if let Some(m) = o.get("o") {
            let mut out = BTreeMap::new();
            for (k, v) in m.as_object()? {
                out.insert(k.clone(), V::from_json(v)?);
            }
            return Some(V::Obj(out));
        }
        None
    }
    /// A string that a lenient reader could take for a number / boolean / null.
    pub fn str_looks_typed(s: &str) -> bool {
        let t = s.trim();
        t.parse::<f64>().is_ok()
            || t.eq_ignore_ascii_case("true")
            || t.eq_ignore_ascii_case("false")
            || t.eq_ignore_ascii_case("null")
            || t.eq_ignore_ascii_case("nan")
            || t.eq_ignore_ascii_case("inf")
            || t.eq_ignore_ascii_case("infinity")
    }
}

/// Result of reading a path from the store.
#[derive(Clone, Debug, PartialEq)]
pub enum Look {
    Val(V),
    Missing,
    /// both the flat key `a.b` and the nested path a→b exist: the documentation does not say
    /// which one a rule means
    Ambiguous,
}

/// Top-level fact store: key → value. A key may itself contain dots (flat dotted key).
#[derive(Clone, Debug, PartialEq, Default)]
pub struct Store(pub BTreeMap<String, V>);

impl Store {
    pub fn new() -> Self {
        Store(BTreeMap::new())
    }
    fn nested(&self, path: &str) -> Option<&V> {
        let mut parts = path.split('.');
        let mut cur = self.0.get(parts.next()?)?;
        for p in parts {
            match cur {
                V::Obj(o) => cur = o.get(p)?,
                _ => return None,
            }
        }
        Some(cur)
    }
    pub fn lookup(&self, path: &str) -> Look {
        if !path.contains('.') {
            return match self.0.get(path) {
                Some(v) => Look::Val(v.clone()),
                None => Look::Missing,
            };
        }
        match (self.nested(path), self.0.get(path)) {
            (Some(_), Some(_)) => Look::Ambiguous,
            (Some(v), None) | (None, Some(v)) => Look::Val(v.clone()),
            (None, None) => Look::Missing,
        }
    }
    /// Reference assignment: an existing nested location (all parents objects) is updated in
    /// place, otherwise the path becomes/updates a flat key. Err = ambiguous target.
    pub fn assign(&mut self, path: &str, v: V) -> Result<(), &'static str> {
        if !path.contains('.') {
            self.0.insert(path.to_string(), v);
            return Ok(());
        }
        let parts: Vec<&str> = path.split('.').collect();
        // can we navigate to the parent object?
        let mut ok = true;
        {
            let mut cur = self.0.get(parts[0]);
            for p in &parts[1..parts.len() - 1] {
                cur = match cur {
                    Some(V::Obj(o)) => o.get(*p),
                    _ => None,
                };
            }
            if !matches!(cur, Some(V::Obj(_))) {
                ok = false;
            }
        }
        if ok {
            if self.0.contains_key(path) {
                return Err("assignment-target-ambiguous");
            }
            let mut cur = self.0.get_mut(parts[0]).unwrap();
            for p in &parts[1..parts.len() - 1] {
                cur = match cur {
                    V::Obj(o) => o.get_mut(*p).unwrap(),
                    _ => unreachable!(),
                };
            }
            if let V::Obj(o) = cur {
                o.insert(parts[parts.len() - 1].to_string(), v);
            }
            Ok(())
        } else {
            self.0.insert(path.to_string(), v);
            Ok(())
        }
    }
    pub fn to_facts(&self) -> rust_rule_engine::Facts {
        let f = rust_rule_engine::Facts::new();
        for (k, v) in &self.0 {
            let _ = f.add_value(k, v.to_engine());
        }
        f
    }
    /// Err(key) when a value holds an unevaluated expression.
    pub fn from_engine_map(m: &HashMap<String, Value>) -> Result<Store, String> {
        let mut s = Store::new();
        for (k, v) in m {
            match V::from_engine(v) {
                Some(x) => {
                    s.0.insert(k.clone(), x);
                }
                None => return Err(k.clone()),
            }
        }
        Ok(s)
    }
    pub fn to_json(&self) -> Json {
        let m: serde_json::Map<String, Json> = self.0.iter().map(|(k, v)| (k.clone(), v.to_json())).collect();
        Json::Object(m)
    }
    pub fn from_json(j: &Json) -> Option<Store> {
        let mut s = Store::new();
        for (k, v) in j.as_object()? {
            s.0.insert(k.clone(), V::from_json(v)?);
        }
        Some(s)
    }
}
