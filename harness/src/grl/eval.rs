//! Three-valued reference evaluator for the typed core of GRL (DESIGN.md §4.2).
//! `Undef(reason)` marks operand combinations the documentation leaves open; callers skip and
//! count those cases, they never judge them.

use super::ast::*;
use super::val::{Look, Store, V};

#[derive(Clone, Debug, PartialEq)]
pub enum T3 {
    True,
    False,
    Undef(&'static str),
}

impl T3 {
    pub fn from_bool(b: bool) -> T3 {
        if b {
            T3::True
        } else {
            T3::False
        }
    }
    pub fn is_true(&self) -> bool {
        *self == T3::True
    }
}

const MAX_EXACT: f64 = 9_007_199_254_740_992.0; // 2^53

fn num_of(v: &V) -> Option<f64> {
    match v {
        V::Int(i) => Some(*i as f64),
        V::Float(f) => Some(*f),
        _ => None,
    }
}

fn exact(v: &V) -> bool {
    match v {
        V::Int(i) => (*i as f64).abs() <= MAX_EXACT,
        V::Float(f) => f.is_finite() && f.abs() <= MAX_EXACT,
        _ => true,
    }
}

fn operand_value(o: &Operand, s: &Store) -> Result<V, &'static str> {
    match o {
        Operand::Int(i) => Ok(V::Int(*i)),
        Operand::Float(f) => Ok(V::Float(*f)),
        Operand::Str(x) => Ok(V::Str(x.clone())),
        Operand::Field(p) => match s.lookup(p) {
            Look::Val(v) => Ok(v),
            Look::Missing => Err("arith-operand-missing"),
            Look::Ambiguous => Err("flat-and-nested-spelling-both-present"),
        },
    }
}

fn bin(a: &V, op: char, b: &V) -> Result<V, &'static str> {
    let (x, y) = match (num_of(a), num_of(b)) {
        (Some(x), Some(y)) => (x, y),
        _ => return Err("arith-non-numeric-operand"),
    };
    if !exact(a) || !exact(b) {
        return Err("arith-beyond-2^53");
    }
    let both_int = matches!((a, b), (V::Int(_), V::Int(_)));
    let r = match op {
        '+' => x + y,
        '-' => x - y,
        '*' => x * y,
        '/' => {
            if y == 0.0 {
                return Err("division-by-zero");
            }
            x / y
        }
        '%' => {
            // only the uncontroversial case: non-negative integer dividend, positive integer divisor
            if !both_int || y <= 0.0 || x < 0.0 {
                return Err("modulo-outside-natural-numbers");
            }
            x % y
        }
        _ => return Err("arith-unknown-operator"),
    };
    if !r.is_finite() || r.abs() > MAX_EXACT {
        return Err("arith-beyond-2^53");
    }
    if both_int && r.fract() == 0.0 {
        Ok(V::Int(r as i64))
    } else {
        Ok(V::Float(r))
    }
}

/// Usual precedence and left associativity; string concatenation when every operator is `+`
/// and every operand is a string.
pub fn eval_chain(c: &Chain, s: &Store) -> Result<V, &'static str> {
    let mut vals = vec![operand_value(&c.first, s)?];
    let mut ops = Vec::new();
    for (op, o) in &c.rest {
        ops.push(*op);
        vals.push(operand_value(o, s)?);
    }
    if ops.is_empty() {
        return Ok(vals.pop().unwrap());
    }
    if vals.iter().any(|v| matches!(v, V::Str(_))) {
        if ops.iter().all(|o| *o == '+') && vals.iter().all(|v| matches!(v, V::Str(_))) {
            // a string that looks like a number could legitimately be added numerically
            if vals.iter().any(|v| matches!(v, V::Str(x) if V::str_looks_typed(x))) {
                return Err("numeric-looking-string-in-arithmetic");
            }
            let mut out = String::new();
            for v in vals {
                if let V::Str(x) = v {
                    out.push_str(&x);
                }
            }
            return Ok(V::Str(out));
        }
        return Err("string-operand-in-arithmetic");
    }
    // pass 1: * / %
    let mut v2: Vec<V> = vec![vals[0].clone()];
    let mut o2: Vec<char> = Vec::new();
    for (i, op) in ops.iter().enumerate() {
        let rhs = &vals[i + 1];
        if matches!(op, '*' | '/' | '%') {
            let lhs = v2.pop().unwrap();
            v2.push(bin(&lhs, *op, rhs)?);
        } else {
            o2.push(*op);
            v2.push(rhs.clone());
        }
    }
    // pass 2: + -
    let mut acc = v2[0].clone();
    for (i, op) in o2.iter().enumerate() {
        acc = bin(&acc, *op, &v2[i + 1])?;
    }
    Ok(acc)
}

/// Same-typed equality; Err when the pair is a combination the documentation leaves open.
pub fn eq_defined(a: &V, b: &V) -> Result<bool, &'static str> {
    match (a, b) {
        (V::Null, V::Null) => Ok(true),
        (V::Null, V::Str(s)) | (V::Str(s), V::Null) if s.eq_ignore_ascii_case("null") => Err("string-null-vs-null"),
        (V::Null, _) | (_, V::Null) => Ok(false),
        (V::Int(x), V::Int(y)) => Ok(x == y),
        (V::Float(x), V::Float(y)) => {
            if x.is_nan() || y.is_nan() {
                Err("nan")
            } else {
                Ok(x == y)
            }
        }
        (V::Int(_), V::Float(_)) | (V::Float(_), V::Int(_)) => Err("integer-vs-float-equality"),
        (V::Str(x), V::Str(y)) => Ok(x == y),
        (V::Bool(x), V::Bool(y)) => Ok(x == y),
        (V::Str(s), V::Int(_) | V::Float(_) | V::Bool(_)) | (V::Int(_) | V::Float(_) | V::Bool(_), V::Str(s)) => {
            if V::str_looks_typed(s) {
                Err("typed-looking-string-vs-scalar")
            } else {
                Ok(false)
            }
        }
        (V::Bool(_), V::Int(_) | V::Float(_)) | (V::Int(_) | V::Float(_), V::Bool(_)) => Err("bool-vs-number"),
        (V::Arr(x), V::Arr(y)) => {
            if x.len() != y.len() {
                return Ok(false);
            }
            let mut all = true;
            for (p, q) in x.iter().zip(y) {
                if !eq_defined(p, q)? {
                    all = false;
                }
            }
            Ok(all)
        }
        (V::Obj(_), _) | (_, V::Obj(_)) => Err("object-comparison"),
        (V::Arr(_), _) | (_, V::Arr(_)) => Ok(false),
    }
}

fn membership(needle: &V, hay: &[V]) -> Result<bool, &'static str> {
    let mut found = false;
    for h in hay {
        if matches!(h, V::Null) {
            return Err("null-array-element");
        }
        if eq_defined(needle, h)? {
            found = true;
        }
    }
    Ok(found)
}

pub fn rhs_value(r: &Rhs, s: &Store) -> Result<V, &'static str> {
    match r {
        Rhs::Lit(v) => Ok(v.clone()),
        Rhs::FieldRef(p) => match s.lookup(p) {
            Look::Val(v) => Ok(v),
            // the documentation does not say whether an absent bare name is a missing field or a symbol
            Look::Missing => Err("rhs-field-reference-absent"),
            Look::Ambiguous => Err("flat-and-nested-spelling-both-present"),
        },
        Rhs::Arith(c) => eval_chain(c, s),
    }
}

pub fn eval_leaf(l: &Leaf, s: &Store) -> T3 {
    let lv = match &l.lhs {
        Lhs::Field(p) => match s.lookup(p) {
            Look::Val(v) => v,
            Look::Missing => V::Null,
            Look::Ambiguous => return T3::Undef("flat-and-nested-spelling-both-present"),
        },
        Lhs::Arith(c) => match eval_chain(c, s) {
            Ok(v) => v,
            Err(e) => return T3::Undef(e),
        },
    };
    // a quoted literal that happens to equal a fact key: the engine documents bare names as
    // references, but what a quoted name means is left open when it collides
    if let Rhs::Lit(V::Str(x)) = &l.rhs {
        if !matches!(s.lookup(x), Look::Missing) {
            return T3::Undef("string-literal-equals-a-fact-key");
        }
    }
    let rv = match rhs_value(&l.rhs, s) {
        Ok(v) => v,
        Err(e) => return T3::Undef(e),
    };
    if matches!(lv, V::Obj(_)) || matches!(rv, V::Obj(_)) {
        return T3::Undef("object-comparison");
    }
    match l.op {
        Op::Eq => match eq_defined(&lv, &rv) {
            Ok(b) => T3::from_bool(b),
            Err(e) => T3::Undef(e),
        },
        Op::Ne => match eq_defined(&lv, &rv) {
            Ok(b) => T3::from_bool(!b),
            Err(e) => T3::Undef(e),
        },
        Op::Lt | Op::Le | Op::Gt | Op::Ge => {
            if matches!(lv, V::Null) || matches!(rv, V::Null) {
                return T3::False;
            }
            // two integers are ordered as integers, whatever their size
            if let (V::Int(x), V::Int(y)) = (&lv, &rv) {
                return T3::from_bool(match l.op {
                    Op::Lt => x < y,
                    Op::Le => x <= y,
                    Op::Gt => x > y,
                    _ => x >= y,
                });
            }
            match (num_of(&lv), num_of(&rv)) {
                (Some(x), Some(y)) => {
                    if !exact(&lv) || !exact(&rv) {
                        return T3::Undef("ordering-beyond-2^53");
                    }
                    if x.is_nan() || y.is_nan() {
                        return T3::Undef("nan");
                    }
                    T3::from_bool(match l.op {
                        Op::Lt => x < y,
                        Op::Le => x <= y,
                        Op::Gt => x > y,
                        _ => x >= y,
                    })
                }
                _ => T3::Undef("ordering-on-non-numbers"),
            }
        }
        Op::Contains | Op::StartsWith | Op::EndsWith => match (&lv, &rv) {
            (V::Null, _) => T3::False,
            (V::Str(a), V::Str(b)) => T3::from_bool(match l.op {
                Op::Contains => a.contains(b.as_str()),
                Op::StartsWith => a.starts_with(b.as_str()),
                _ => a.ends_with(b.as_str()),
            }),
            (V::Arr(a), _) if l.op == Op::Contains => match membership(&rv, a) {
                Ok(b) => T3::from_bool(b),
                Err(e) => T3::Undef(e),
            },
            _ => T3::Undef("string-predicate-on-non-strings"),
        },
        Op::In => match &rv {
            V::Arr(a) => {
                if matches!(lv, V::Null) {
                    if a.iter().any(|h| matches!(h, V::Null)) {
                        return T3::Undef("null-array-element");
                    }
                    return T3::False;
                }
                match membership(&lv, a) {
                    Ok(b) => T3::from_bool(b),
                    Err(e) => T3::Undef(e),
                }
            }
            V::Null => T3::Undef("in-null"),
            _ => T3::Undef("in-on-non-array"),
        },
    }
}

/// Classical logic; any undefined leaf makes the whole condition undefined (both operands of
/// `&&`/`||` are always evaluated: no reading of a half-defined condition is assumed).
pub fn eval_cond(c: &Cond, s: &Store) -> T3 {
    match c {
        Cond::Leaf(l) => eval_leaf(l, s),
        Cond::Not(a) => match eval_cond(a, s) {
            T3::True => T3::False,
            T3::False => T3::True,
            u => u,
        },
        Cond::And(a, b) => match (eval_cond(a, s), eval_cond(b, s)) {
            (T3::Undef(e), _) | (_, T3::Undef(e)) => T3::Undef(e),
            (T3::True, T3::True) => T3::True,
            _ => T3::False,
        },
        Cond::Or(a, b) => match (eval_cond(a, s), eval_cond(b, s)) {
            (T3::Undef(e), _) | (_, T3::Undef(e)) => T3::Undef(e),
            (T3::False, T3::False) => T3::False,
            _ => T3::True,
        },
    }
}

/// Apply one Set/Append to the model store. Err = undefined (skip the case from here on).
pub fn apply_action(a: &Action, s: &mut Store) -> Result<(), &'static str> {
    match a {
        Action::Set { target, rhs } => {
            if matches!(s.lookup(target), Look::Ambiguous) {
                return Err("assignment-target-ambiguous");
            }
            let v = rhs_value(rhs, s)?;
            s.assign(target, v)
        }
        Action::Append { target, rhs } => {
            let v = rhs_value(rhs, s)?;
            let cur = match s.lookup(target) {
                Look::Val(V::Arr(a)) => a,
                Look::Val(_) => return Err("append-to-non-array"),
                Look::Missing => Vec::new(),
                Look::Ambiguous => return Err("assignment-target-ambiguous"),
            };
            let mut cur = cur;
            cur.push(v);
            s.assign(target, V::Arr(cur))
        }
        _ => Ok(()),
    }
}
