//! Shared model of the typed core of GRL: values and stores, AST + printer, three-valued
//! reference evaluator, generators, and the forward-engine runner.
pub mod ast;
pub mod eval;
pub mod fwd;
pub mod gen;
pub mod val;
