//! Shared model of the typed core of GRL: values and stores, AST + printer, three-valued
//! reference evaluator, generators, and the forward-engine runner.
pub mod ast;
pub mod cmp;
pub mod eval;
pub mod fwd;
pub mod gen;
pub mod layout;
pub mod val;
