//! Structural comparison of a parsed `Rule` with the generator's AST (C04). Both sides are
//! brought to a canonical textual form piece by piece (name, salience, each attribute, the
//! flattened And/Or/Not tree with its leaves, the action list) so that the first differing
//! piece names the clause. Nothing here depends on HashMap order or on Debug output.

use super::ast::*;
use super::val::V;
use chrono::{DateTime, Utc};
use rust_rule_engine::engine::rule::{ConditionExpression, ConditionGroup, Rule};
use rust_rule_engine::{ActionType, LogicalOperator, Operator, Value};

fn strip_ws(s: &str) -> String {
    s.chars().filter(|c| !c.is_whitespace()).collect()
}

pub fn canon_value(v: &Value) -> String {
    match v {
        Value::String(s) => format!("s:{:?}", s),
        Value::Integer(i) => format!("i:{}", i),
        Value::Number(f) => format!("f:{:?}", f),
        Value::Boolean(b) => format!("b:{}", b),
        Value::Null => "null".into(),
        Value::Array(a) => format!("[{}]", a.iter().map(canon_value).collect::<Vec<_>>().join(",")),
        Value::Object(o) => {
            let mut kv: Vec<String> = o.iter().map(|(k, v)| format!("{:?}:{}", k, canon_value(v))).collect();
            kv.sort();
            format!("o:{{{}}}", kv.join(","))
        }
        Value::Expression(e) => format!("x:{}", strip_ws(e)),
    }
}

pub fn canon_v(v: &V) -> String {
    canon_value(&v.to_engine())
}

pub fn canon_rhs(r: &Rhs) -> String {
    match r {
        Rhs::Lit(v) => canon_v(v),
        Rhs::FieldRef(p) => format!("x:{}", p),
        Rhs::Arith(c) => format!("x:{}", strip_ws(&fmt_chain(c))),
    }
}

fn op_text(o: &Operator) -> &'static str {
    match o {
        Operator::Equal => "==",
        Operator::NotEqual => "!=",
        Operator::GreaterThan => ">",
        Operator::GreaterThanOrEqual => ">=",
        Operator::LessThan => "<",
        Operator::LessThanOrEqual => "<=",
        Operator::Contains => "contains",
        Operator::NotContains => "not_contains",
        Operator::StartsWith => "startsWith",
        Operator::EndsWith => "endsWith",
        Operator::Matches => "matches",
        Operator::In => "in",
    }
}

/// Canonical form of a parsed condition tree: And/Or chains flattened to n-ary nodes.
pub fn canon_parsed_cond(g: &ConditionGroup) -> String {
    fn flat<'a>(g: &'a ConditionGroup, want: &LogicalOperator, out: &mut Vec<&'a ConditionGroup>) {
        match g {
            ConditionGroup::Compound { left, operator, right } if operator == want => {
                flat(left, want, out);
                flat(right, want, out);
            }
            other => out.push(other),
        }
    }
    match g {
        ConditionGroup::Single(c) => match &c.expression {
            ConditionExpression::Field(f) => format!("leaf({} {} {})", f, op_text(&c.operator), canon_value(&c.value)),
            ConditionExpression::Test { name, args } => {
                if args.is_empty() {
                    format!("test({})", strip_ws(name))
                } else {
                    format!("test({}|{})", strip_ws(name), args.join(","))
                }
            }
            ConditionExpression::FunctionCall { name, args } => {
                format!("func({}({}) {} {})", name, args.join(","), op_text(&c.operator), canon_value(&c.value))
            }
            ConditionExpression::MultiField { field, operation, variable } => {
                format!("multifield({} {} {:?} {} {})", field, operation, variable, op_text(&c.operator), canon_value(&c.value))
            }
        },
        ConditionGroup::Compound { operator, .. } => match operator {
            LogicalOperator::And | LogicalOperator::Or => {
                let mut parts = Vec::new();
                flat(g, operator, &mut parts);
                format!(
                    "{}({})",
                    if *operator == LogicalOperator::And { "and" } else { "or" },
                    parts.iter().map(|p| canon_parsed_cond(p)).collect::<Vec<_>>().join(",")
                )
            }
            LogicalOperator::Not => "compound-not(?)".into(),
        },
        ConditionGroup::Not(inner) => format!("not({})", canon_parsed_cond(inner)),
        ConditionGroup::Exists(inner) => format!("exists({})", canon_parsed_cond(inner)),
        ConditionGroup::Forall(inner) => format!("forall({})", canon_parsed_cond(inner)),
        ConditionGroup::Accumulate { .. } => "accumulate(..)".into(),
        #[allow(unreachable_patterns)]
        _ => "stream-pattern(..)".into(),
    }
}

pub fn canon_expected_leaf(l: &Leaf) -> String {
    match &l.lhs {
        Lhs::Field(f) => format!("leaf({} {} {})", f, l.op.text(), canon_rhs(&l.rhs)),
        Lhs::Arith(_) => format!("test({})", strip_ws(&fmt_leaf(l))),
    }
}

pub fn canon_expected_cond(c: &Cond) -> String {
    fn flat_and<'a>(c: &'a Cond, out: &mut Vec<&'a Cond>) {
        match c {
            Cond::And(a, b) => {
                flat_and(a, out);
                flat_and(b, out);
            }
            o => out.push(o),
        }
    }
    fn flat_or<'a>(c: &'a Cond, out: &mut Vec<&'a Cond>) {
        match c {
            Cond::Or(a, b) => {
                flat_or(a, out);
                flat_or(b, out);
            }
            o => out.push(o),
        }
    }
    match c {
        Cond::Leaf(l) => canon_expected_leaf(l),
        Cond::Not(a) => format!("not({})", canon_expected_cond(a)),
        Cond::And(..) => {
            let mut p = Vec::new();
            flat_and(c, &mut p);
            format!("and({})", p.iter().map(|x| canon_expected_cond(x)).collect::<Vec<_>>().join(","))
        }
        Cond::Or(..) => {
            let mut p = Vec::new();
            flat_or(c, &mut p);
            format!("or({})", p.iter().map(|x| canon_expected_cond(x)).collect::<Vec<_>>().join(","))
        }
    }
}

pub fn canon_parsed_action(a: &ActionType) -> String {
    match a {
        ActionType::Set { field, value } => format!("set({} = {})", field, canon_value(value)),
        ActionType::Append { field, value } => format!("append({} += {})", field, canon_value(value)),
        ActionType::Log { message } => format!("log({:?})", message),
        ActionType::Retract { object } => format!("retract({:?})", object),
        ActionType::ActivateAgendaGroup { group } => format!("activate({:?})", group),
        ActionType::ScheduleRule { rule_name, delay_ms } => format!("schedule({},{:?})", delay_ms, rule_name),
        ActionType::CompleteWorkflow { workflow_name } => format!("complete({:?})", workflow_name),
        ActionType::SetWorkflowData { key, value } => format!("wfdata({:?}={})", key, canon_value(value)),
        ActionType::Custom { action_type, params } => {
            let mut kv: Vec<(usize, String)> = Vec::new();
            let mut other: Vec<String> = Vec::new();
            for (k, v) in params {
                match k.parse::<usize>() {
                    Ok(i) => kv.push((i, canon_value(v))),
                    Err(_) => other.push(format!("{:?}={}", k, canon_value(v))),
                }
            }
            kv.sort();
            other.sort();
            format!(
                "call({}; {}{})",
                action_type,
                kv.iter().map(|(i, v)| format!("{}={}", i, v)).collect::<Vec<_>>().join(","),
                if other.is_empty() { String::new() } else { format!(";{}", other.join(",")) }
            )
        }
        ActionType::MethodCall { object, method, args } => {
            format!("method({}.{}({}))", object, method, args.iter().map(canon_value).collect::<Vec<_>>().join(","))
        }
    }
}

pub fn canon_expected_action(a: &Action) -> String {
    match a {
        Action::Set { target, rhs } => format!("set({} = {})", target, canon_rhs(rhs)),
        Action::Append { target, rhs } => format!("append({} += {})", target, canon_rhs(rhs)),
        Action::Log(m) => format!("log({:?})", m),
        Action::Retract(o) => format!("retract({:?})", o),
        Action::ActivateAgendaGroup(g) => format!("activate({:?})", g),
        Action::ScheduleRule(ms, r) => format!("schedule({},{:?})", ms, r),
        Action::CompleteWorkflow(w) => format!("complete({:?})", w),
        Action::SetWorkflowData(k, v) => format!("wfdata({:?}={})", k, canon_v(v)),
        Action::Call(n, args) => format!(
            "call({}; {})",
            n,
            args.iter().enumerate().map(|(i, a)| format!("{}={}", i, canon_rhs(a))).collect::<Vec<_>>().join(",")
        ),
        Action::Method(o, m, args) => format!("method({}.{}({}))", o, m, args.iter().map(canon_rhs).collect::<Vec<_>>().join(",")),
    }
}

/// Canonical form of everything the statement mentions about a parsed rule (for metamorphic
/// comparisons between two parses).
pub fn canon_parsed_rule(r: &Rule) -> String {
    format!(
        "name={:?} salience={} no_loop={} lock_on_active={} agenda={:?} activation={:?} effective={:?} expires={:?} when={} then=[{}]",
        r.name,
        r.salience,
        r.no_loop,
        r.lock_on_active,
        r.agenda_group,
        r.activation_group,
        r.date_effective.map(|d| d.timestamp()),
        r.date_expires.map(|d| d.timestamp()),
        canon_parsed_cond(&r.conditions),
        r.actions.iter().map(canon_parsed_action).collect::<Vec<_>>().join("; ")
    )
}

/// RFC 3339, or a plain `YYYY-MM-DD` (the documentation's own example) meaning midnight UTC.
fn parse_date(s: &str) -> Option<DateTime<Utc>> {
    if let Ok(d) = DateTime::parse_from_rfc3339(s) {
        return Some(d.with_timezone(&Utc));
    }
    chrono::NaiveDate::parse_from_str(s, "%Y-%m-%d").ok().and_then(|d| d.and_hms_opt(0, 0, 0)).map(|d| d.and_utc())
}

/// First difference between the parsed rule and the AST: (clause, expected, observed).
pub fn compare_rule(parsed: &Rule, ast: &RuleAst) -> Option<(&'static str, String, String)> {
    if parsed.name != ast.name {
        return Some(("rule-name", format!("{:?}", ast.name), format!("{:?}", parsed.name)));
    }
    let sal = ast.attrs.salience.unwrap_or(0);
    if parsed.salience != sal {
        return Some(("salience", sal.to_string(), parsed.salience.to_string()));
    }
    if parsed.no_loop != ast.attrs.no_loop {
        return Some(("attribute:no-loop", ast.attrs.no_loop.to_string(), parsed.no_loop.to_string()));
    }
    if parsed.lock_on_active != ast.attrs.lock_on_active {
        return Some(("attribute:lock-on-active", ast.attrs.lock_on_active.to_string(), parsed.lock_on_active.to_string()));
    }
    if parsed.agenda_group != ast.attrs.agenda_group {
        return Some(("attribute:agenda-group", format!("{:?}", ast.attrs.agenda_group), format!("{:?}", parsed.agenda_group)));
    }
    if parsed.activation_group != ast.attrs.activation_group {
        return Some(("attribute:activation-group", format!("{:?}", ast.attrs.activation_group), format!("{:?}", parsed.activation_group)));
    }
    let ee = ast.attrs.date_effective.as_deref().and_then(parse_date);
    if parsed.date_effective != ee {
        return Some(("attribute:date-effective", format!("{:?}", ee), format!("{:?}", parsed.date_effective)));
    }
    let ex = ast.attrs.date_expires.as_deref().and_then(parse_date);
    if parsed.date_expires != ex {
        return Some(("attribute:date-expires", format!("{:?}", ex), format!("{:?}", parsed.date_expires)));
    }
    let pc = canon_parsed_cond(&parsed.conditions);
    let ec = canon_expected_cond(&ast.cond);
    if pc != ec {
        return Some(("condition-tree", ec, pc));
    }
    if parsed.actions.len() != ast.actions.len() {
        return Some((
            "action-list",
            format!("{} actions: [{}]", ast.actions.len(), ast.actions.iter().map(canon_expected_action).collect::<Vec<_>>().join("; ")),
            format!("{} actions: [{}]", parsed.actions.len(), parsed.actions.iter().map(canon_parsed_action).collect::<Vec<_>>().join("; ")),
        ));
    }
    for (p, e) in parsed.actions.iter().zip(&ast.actions) {
        let (pa, ea) = (canon_parsed_action(p), canon_expected_action(e));
        if pa != ea {
            return Some(("action", ea, pa));
        }
    }
    None
}
