//! Virtual wall clock. The library reads `SystemTime::now()` in a few places (StreamAlphaNode,
//! StateEntry expiry, checkpoint ids). `./check` LD_PRELOADs /verif/shim/libverifclock.so for
//! the properties that need it; this module finds its control symbols with dlsym. If the shim
//! is not loaded `available()` is false and clock-dependent sub-checks must be reported as
//! inconclusive by the caller. If the binary was started without LD_PRELOAD but
//! VERIF_CLOCK_SHIM is set, `reexec_with_shim()` re-executes it under the shim.

use std::os::unix::process::CommandExt;
use std::sync::OnceLock;

type SetFn = unsafe extern "C" fn(i64);
type GetFn = unsafe extern "C" fn() -> i64;
type AdvFn = unsafe extern "C" fn(i64) -> i64;
type ReadsFn = unsafe extern "C" fn() -> u64;

struct Syms {
    set: SetFn,
    get: GetFn,
    adv: AdvFn,
    reads: ReadsFn,
}

static SYMS: OnceLock<Option<Syms>> = OnceLock::new();

fn syms() -> &'static Option<Syms> {
    SYMS.get_or_init(|| unsafe {
        let look = |name: &[u8]| libc::dlsym(libc::RTLD_DEFAULT, name.as_ptr() as *const libc::c_char);
        let s = look(b"verif_clock_set_ms\0");
        let g = look(b"verif_clock_get_ms\0");
        let a = look(b"verif_clock_advance_ms\0");
        let r = look(b"verif_clock_reads\0");
        if s.is_null() || g.is_null() || a.is_null() || r.is_null() {
            None
        } else {
            Some(Syms {
                set: std::mem::transmute::<*mut libc::c_void, SetFn>(s),
                get: std::mem::transmute::<*mut libc::c_void, GetFn>(g),
                adv: std::mem::transmute::<*mut libc::c_void, AdvFn>(a),
                reads: std::mem::transmute::<*mut libc::c_void, ReadsFn>(r),
            })
        }
    })
}

/// Is the shim loaded in this process?
pub fn available() -> bool {
    syms().is_some()
}

/// If the shim is not loaded but VERIF_CLOCK_SHIM names it, re-exec this process under it.
/// Call first thing in main(). Returns normally when already under the shim or none is known.
pub fn reexec_with_shim() {
    if available() {
        return;
    }
    if std::env::var("VERIF_CLOCK_REEXEC").is_ok() {
        return; // already tried
    }
    let Ok(shim) = std::env::var("VERIF_CLOCK_SHIM") else {
        return;
    };
    if !std::path::Path::new(&shim).exists() {
        return;
    }
    let exe = match std::env::current_exe() {
        Ok(e) => e,
        Err(_) => return,
    };
    let err = std::process::Command::new(exe)
        .args(std::env::args().skip(1))
        .env("LD_PRELOAD", shim)
        .env("VERIF_CLOCK_REEXEC", "1")
        .exec();
    eprintln!("re-exec under clock shim failed: {}", err);
}

/// Freeze the wall clock at `ms` milliseconds since the epoch (process-wide!).
pub fn set_ms(ms: u64) {
    if let Some(s) = syms() {
        unsafe { (s.set)(ms as i64) }
    }
}
/// Let the real clock through again.
pub fn passthrough() {
    if let Some(s) = syms() {
        unsafe { (s.set)(-1) }
    }
}
pub fn get_ms() -> Option<u64> {
    syms().as_ref().and_then(|s| {
        let v = unsafe { (s.get)() };
        if v >= 0 {
            Some(v as u64)
        } else {
            None
        }
    })
}
pub fn advance_ms(d: u64) {
    if let Some(s) = syms() {
        unsafe {
            (s.adv)(d as i64);
        }
    }
}
/// How many CLOCK_REALTIME reads were answered from the fake clock (evidence: the code under
/// test really consulted the injected clock).
pub fn fake_reads() -> u64 {
    syms().as_ref().map(|s| unsafe { (s.reads)() }).unwrap_or(0)
}
