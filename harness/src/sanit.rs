//! Thorough-tier sanitizer runs for C15 / C19: the workloads of the `/verif/miri` crate under
//! Miri (`-Zmiri-many-seeds`: deterministic schedule exploration + data-race / deadlock / UB
//! detection) and, built with ThreadSanitizer, natively under stress.
//!
//! Verdict mapping: a Miri/TSan *report* (or a `…-VIOLATION` line printed by the workload's own
//! monitor) is a violation with the report as witness; anything that prevents the tool from
//! giving a verdict (tool-chain missing, build failure, unsupported operation, wall-clock
//! back-stop) is inconclusive.

use rre_verif::*;
use std::io::Read;
use std::path::{Path, PathBuf};
use std::process::{Command, Stdio};
use std::time::{Duration, Instant};

pub struct ToolOut {
    pub exit: Option<i32>,
    pub timed_out: bool,
    pub spawn_error: Option<String>,
    pub stdout: String,
    pub stderr: String,
    pub wall_s: f64,
}

fn run_tool(mut cmd: Command, timeout_s: u64) -> ToolOut {
    cmd.stdin(Stdio::null()).stdout(Stdio::piped()).stderr(Stdio::piped());
    let t0 = Instant::now();
    let mut child = match cmd.spawn() {
        Ok(c) => c,
        Err(e) => {
            return ToolOut {
                exit: None,
                timed_out: false,
                spawn_error: Some(e.to_string()),
                stdout: String::new(),
                stderr: String::new(),
                wall_s: 0.0,
            }
        }
    };
    let mut so = child.stdout.take().unwrap();
    let mut se = child.stderr.take().unwrap();
    let h1 = std::thread::spawn(move || {
        let mut b = Vec::new();
        let _ = so.read_to_end(&mut b);
        String::from_utf8_lossy(&b).to_string()
    });
    let h2 = std::thread::spawn(move || {
        let mut b = Vec::new();
        let _ = se.read_to_end(&mut b);
        String::from_utf8_lossy(&b).to_string()
    });
    let mut timed_out = false;
    let exit = loop {
        match child.try_wait() {
            Ok(Some(s)) => break s.code(),
            Ok(None) => {
                if t0.elapsed() > Duration::from_secs(timeout_s) {
                    timed_out = true;
                    // kill the whole process group the tool may have spawned
                    unsafe {
                        libc::kill(-(child.id() as i32), libc::SIGKILL);
                    }
                    let _ = child.kill();
                    let _ = child.wait();
                    break None;
                }
                std::thread::sleep(Duration::from_millis(100));
            }
            Err(_) => break None,
        }
    };
    ToolOut {
        exit,
        timed_out,
        spawn_error: None,
        stdout: h1.join().unwrap_or_default(),
        stderr: h2.join().unwrap_or_default(),
        wall_s: t0.elapsed().as_secs_f64(),
    }
}

fn tail(s: &str, lines: usize) -> String {
    let v: Vec<&str> = s.lines().collect();
    v[v.len().saturating_sub(lines)..].join("\n")
}

fn base_cmd(root: &Path) -> Command {
    use std::os::unix::process::CommandExt;
    let mut c = Command::new("cargo");
    c.current_dir(root.join("miri"));
    c.env_remove("RUSTFLAGS").env_remove("CARGO_TARGET_DIR").env_remove("MIRIFLAGS").env_remove("LD_PRELOAD");
    c.env("CARGO_NET_OFFLINE", "true");
    c.process_group(0);
    c
}

pub enum SanVerdict {
    /// the tool ran to completion without a report; the workload's stdout is returned
    Clean { stdout: String, wall_s: f64 },
    /// report of the tool or of the workload's own monitor
    Report { kind: String, report: String, workload_line: Option<String> },
    Inconclusive(String),
}

fn classify_miri(o: &ToolOut, tag: &str) -> SanVerdict {
    if let Some(e) = &o.spawn_error {
        return SanVerdict::Inconclusive(format!("cannot start cargo miri: {}", e));
    }
    let viol_line = o.stdout.lines().find(|l| l.starts_with(&format!("{}-VIOLATION", tag))).map(|s| s.to_string());
    let failing_seed = o.stderr.lines().find(|l| l.contains("FAILING SEED")).unwrap_or("").trim().to_string();
    if let Some(l) = viol_line {
        return SanVerdict::Report { kind: "workload-monitor".into(), report: failing_seed, workload_line: Some(l) };
    }
    let e = &o.stderr;
    for (needle, kind) in [
        ("Data race detected", "data-race"),
        ("error: deadlock", "deadlock"),
        ("Undefined Behavior", "undefined-behavior"),
    ] {
        if e.contains(needle) {
            // cut the report out: from the first "error:" line
            let start = e.find("error:").unwrap_or(0);
            let rep: String = e[start..].chars().take(6000).collect();
            return SanVerdict::Report { kind: kind.into(), report: format!("{} {}", failing_seed, rep), workload_line: None };
        }
    }
    if o.timed_out {
        return SanVerdict::Inconclusive(format!("Miri run exceeded the wall-clock back-stop ({:.0} s)", o.wall_s));
    }
    if o.exit == Some(0) {
        return SanVerdict::Clean { stdout: o.stdout.clone(), wall_s: o.wall_s };
    }
    let why = if e.contains("could not compile") || e.contains("error[E") {
        "Miri build failed"
    } else if e.contains("unsupported operation") {
        "Miri: unsupported operation"
    } else if e.contains("is not installed") || e.contains("no such command") || e.contains("toolchain") {
        "Miri tool-chain unavailable"
    } else {
        "Miri run failed without a report"
    };
    SanVerdict::Inconclusive(format!("{} (exit {:?}): {}", why, o.exit, tail(e, 12).replace('\n', " | ")))
}

/// `cargo +nightly miri run --offline --bin <bin> -- <args>` with `-Zmiri-many-seeds=0..seeds`
/// (or one fixed seed when `one_seed` is given).
pub fn miri_run(root: &Path, bin: &str, tag: &str, args: &[String], seeds: u32, one_seed: Option<u32>, timeout_s: u64) -> SanVerdict {
    let mut c = base_cmd(root);
    c.env("CARGO_TARGET_DIR", root.join("target").join("miri"));
    let flags = match one_seed {
        Some(s) => format!("-Zmiri-seed={} -Zmiri-disable-isolation -Zmiri-ignore-leaks", s),
        None => format!("-Zmiri-many-seeds=0..{} -Zmiri-disable-isolation -Zmiri-ignore-leaks", seeds),
    };
    c.env("MIRIFLAGS", flags);
    c.args(["+nightly", "miri", "run", "--offline", "--bin", bin, "--"]).args(args);
    let o = run_tool(c, timeout_s);
    classify_miri(&o, tag)
}

/// Build the miri crate with ThreadSanitizer (instrumented std). Ok(path of the release dir).
pub fn tsan_build(root: &Path, timeout_s: u64) -> Result<PathBuf, String> {
    let mut c = base_cmd(root);
    let tdir = root.join("target").join("tsan");
    c.env("CARGO_TARGET_DIR", &tdir);
    c.env("RUSTFLAGS", "-Zsanitizer=thread");
    c.args(["+nightly", "build", "-Zbuild-std", "--target", "x86_64-unknown-linux-gnu", "--release", "--offline"]);
    let o = run_tool(c, timeout_s);
    if let Some(e) = o.spawn_error {
        return Err(format!("cannot start cargo: {}", e));
    }
    if o.timed_out {
        return Err("ThreadSanitizer build exceeded the wall-clock back-stop".into());
    }
    if o.exit != Some(0) {
        return Err(format!("ThreadSanitizer build failed (exit {:?}): {}", o.exit, tail(&o.stderr, 10).replace('\n', " | ")));
    }
    Ok(tdir.join("x86_64-unknown-linux-gnu").join("release"))
}

pub fn tsan_run(bin: &Path, tag: &str, args: &[String], timeout_s: u64) -> SanVerdict {
    let mut c = Command::new(bin);
    c.args(args);
    c.env("TSAN_OPTIONS", "halt_on_error=1 exitcode=66 second_deadlock_stack=1");
    c.env_remove("LD_PRELOAD");
    let o = run_tool(c, timeout_s);
    if let Some(e) = &o.spawn_error {
        return SanVerdict::Inconclusive(format!("cannot start the ThreadSanitizer binary: {}", e));
    }
    if let Some(l) = o.stdout.lines().find(|l| l.starts_with(&format!("{}-VIOLATION", tag))) {
        return SanVerdict::Report { kind: "workload-monitor".into(), report: tail(&o.stderr, 30), workload_line: Some(l.to_string()) };
    }
    if o.exit == Some(66) || o.stderr.contains("WARNING: ThreadSanitizer") {
        let start = o.stderr.find("WARNING: ThreadSanitizer").unwrap_or(0);
        let kind = if o.stderr.contains("data race") {
            "data-race"
        } else if o.stderr.contains("lock-order-inversion") {
            "lock-order-inversion"
        } else {
            "thread-sanitizer-report"
        };
        return SanVerdict::Report { kind: kind.into(), report: o.stderr[start..].chars().take(6000).collect(), workload_line: None };
    }
    if o.timed_out {
        return SanVerdict::Inconclusive(format!("ThreadSanitizer run exceeded the wall-clock back-stop ({:.0} s)", o.wall_s));
    }
    if o.exit == Some(0) {
        return SanVerdict::Clean { stdout: o.stdout, wall_s: o.wall_s };
    }
    SanVerdict::Inconclusive(format!("ThreadSanitizer run failed without a report (exit {:?}): {}", o.exit, tail(&o.stderr, 8).replace('\n', " | ")))
}

/// Several ThreadSanitizer processes side by side (each is mostly single-threaded).
pub fn tsan_run_many(bin: &Path, tag: &str, args_list: &[Vec<String>], timeout_s: u64) -> Vec<SanVerdict> {
    std::thread::scope(|sc| {
        let hs: Vec<_> = args_list.iter().map(|a| sc.spawn(move || tsan_run(bin, tag, a, timeout_s))).collect();
        hs.into_iter()
            .map(|h| h.join().unwrap_or_else(|_| SanVerdict::Inconclusive("runner thread died".into())))
            .collect()
    })
}

/// `key=value` fields of the workload's summary lines (`<TAG>-SUMMARY k=v k=v …`).
pub fn summary_lines<'a>(stdout: &'a str, tag: &str) -> Vec<std::collections::HashMap<&'a str, &'a str>> {
    let mut out = Vec::new();
    let pre = format!("{}-SUMMARY", tag);
    for l in stdout.lines() {
        if let Some(rest) = l.strip_prefix(&pre) {
            out.push(rest.split_whitespace().filter_map(|kv| kv.split_once('=')).collect());
        }
    }
    out
}

/// Fold a sanitizer verdict into Stats. `mk_case` builds the replayable case for a report.
pub fn fold(st: &mut Stats, id: &str, tool: &str, v: SanVerdict, mk_case: impl FnOnce(&str, &str, Option<&str>) -> Json) -> Option<String> {
    match v {
        SanVerdict::Clean { stdout, wall_s } => {
            st.add(&format!("{}_wall_s", tool), wall_s as u64);
            Some(stdout)
        }
        SanVerdict::Report { kind, report, workload_line } => {
            st.count(&format!("{}_reports", tool));
            st.violation(Violation {
                clause: format!("{}-clean", tool),
                sig: format!("{}|{}|{}", id, tool, kind),
                detail: format!("{}{}", workload_line.as_deref().map(|l| format!("{} ", l)).unwrap_or_default(), report),
                case: mk_case(&kind, &report, workload_line.as_deref()),
            });
            None
        }
        SanVerdict::Inconclusive(why) => {
            st.inconclusive(format!("{}: {}", tool, why));
            None
        }
    }
}
