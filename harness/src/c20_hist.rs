//! C20, history part: value domain, op alphabet, the reference model of the state store
//! (map key -> value + expiry interval, list of checkpoint snapshots), the monitored runner used
//! by explore / replay / shrinking, the generators and the shrinker.
//!
//! The model is written from the property statement only:
//!  * a key put with a TTL of `t` ms at instant `c` is unexpired strictly before `c+t` and expired
//!    strictly after it; AT `c+t` the statement does not say, so the first observation at that
//!    instant is accepted and then held (all views must agree, and an expired key never returns);
//!  * `update` may or may not restart the TTL (not stated): the expiry becomes an interval;
//!  * `restore(id)` makes the store equal to the snapshot taken by the checkpoint call that
//!    returned `id`; whether a restored key that had a TTL expires later is not stated: it must
//!    be there at the instant of the restore, afterwards the first observation decides;
//!  * retention: with `max_checkpoints = m` the newest `m` checkpoints of this store must stay
//!    restorable; an older one may be gone (restore may fail) but must never restore to a
//!    different state.

use rre_verif::*;
use rust_rule_engine::streaming::state::{StateBackend, StateConfig, StateStore};
use rust_rule_engine::types::Value;
use std::collections::{BTreeMap, BTreeSet, HashMap};
use std::path::Path;
use std::time::Duration;

/// virtual epoch of every clock-driven history (a realistic wall-clock value, ms)
pub const BASE_MS: u64 = 1_790_000_000_000;
/// TTL used on the real clock (never reached)
pub const LONG_TTL_MS: u64 = 3_600_000;

// ------------------------------------------------------------------------------------------
// values
// ------------------------------------------------------------------------------------------

/// bit-exact deep equality (distinguishes -0.0 from 0.0, equates identical NaNs)
pub fn veq(a: &Value, b: &Value) -> bool {
    match (a, b) {
        (Value::Number(x), Value::Number(y)) => x.to_bits() == y.to_bits(),
        (Value::Integer(x), Value::Integer(y)) => x == y,
        (Value::String(x), Value::String(y)) => x == y,
        (Value::Boolean(x), Value::Boolean(y)) => x == y,
        (Value::Null, Value::Null) => true,
        (Value::Expression(x), Value::Expression(y)) => x == y,
        (Value::Array(x), Value::Array(y)) => {
            x.len() == y.len() && x.iter().zip(y.iter()).all(|(p, q)| veq(p, q))
        }
        (Value::Object(x), Value::Object(y)) => {
            x.len() == y.len() && x.iter().all(|(k, v)| y.get(k).is_some_and(|w| veq(v, w)))
        }
        _ => false,
    }
}

pub fn oveq(a: &Option<Value>, b: &Option<Value>) -> bool {
    match (a, b) {
        (None, None) => true,
        (Some(x), Some(y)) => veq(x, y),
        _ => false,
    }
}

/// lossless JSON encoding of a value for case files (floats by bit pattern)
pub fn vjson(v: &Value) -> Json {
    match v {
        Value::Integer(i) => json!({ "int": i }),
        Value::Number(f) => json!({ "f64_bits": format!("{:016x}", f.to_bits()), "approx": format!("{:e}", f) }),
        Value::String(s) => json!({ "str": s }),
        Value::Boolean(b) => json!({ "bool": b }),
        Value::Null => json!("null"),
        Value::Expression(s) => json!({ "expr": s }),
        Value::Array(a) => json!({ "arr": a.iter().map(vjson).collect::<Vec<_>>() }),
        Value::Object(o) => {
            let mut ks: Vec<&String> = o.keys().collect();
            ks.sort();
            json!({ "obj": ks.iter().map(|k| json!([k, vjson(&o[*k])])).collect::<Vec<_>>() })
        }
    }
}

pub fn vfrom(j: &Json) -> Option<Value> {
    if j.as_str() == Some("null") {
        return Some(Value::Null);
    }
    let o = j.as_object()?;
    if let Some(i) = o.get("int") {
        return Some(Value::Integer(i.as_i64()?));
    }
    if let Some(b) = o.get("f64_bits") {
        return Some(Value::Number(f64::from_bits(u64::from_str_radix(b.as_str()?, 16).ok()?)));
    }
    if let Some(s) = o.get("str") {
        return Some(Value::String(s.as_str()?.to_string()));
    }
    if let Some(b) = o.get("bool") {
        return Some(Value::Boolean(b.as_bool()?));
    }
    if let Some(s) = o.get("expr") {
        return Some(Value::Expression(s.as_str()?.to_string()));
    }
    if let Some(a) = o.get("arr") {
        return a.as_array()?.iter().map(vfrom).collect::<Option<Vec<_>>>().map(Value::Array);
    }
    if let Some(a) = o.get("obj") {
        let mut m = HashMap::new();
        for kv in a.as_array()? {
            let kv = kv.as_array()?;
            m.insert(kv.first()?.as_str()?.to_string(), vfrom(kv.get(1)?)?);
        }
        return Some(Value::Object(m));
    }
    None
}

pub fn vshow(v: &Value) -> String {
    let s = match v {
        Value::Number(f) => format!("Number({:e} bits {:016x})", f, f.to_bits()),
        other => format!("{:?}", other),
    };
    if s.chars().count() > 160 {
        let t: String = s.chars().take(160).collect();
        format!("{}…", t)
    } else {
        s
    }
}

pub fn ovshow(v: &Option<Value>) -> String {
    match v {
        None => "<absent>".into(),
        Some(v) => vshow(v),
    }
}

pub fn has_nonfinite(v: &Value) -> bool {
    match v {
        Value::Number(f) => !f.is_finite(),
        Value::Array(a) => a.iter().any(has_nonfinite),
        Value::Object(o) => o.values().any(has_nonfinite),
        _ => false,
    }
}

/// class of the first leaf at which two values differ (cause predicate helper)
pub fn diff_class(a: &Value, b: &Value) -> &'static str {
    match (a, b) {
        (Value::Number(x), Value::Number(y)) => {
            if x.to_bits() == y.to_bits() {
                "same"
            } else if x.is_finite() && y.is_finite() {
                if x == y {
                    "float-zero-sign"
                } else {
                    "float"
                }
            } else {
                "float-non-finite"
            }
        }
        (Value::Array(x), Value::Array(y)) => {
            if x.len() != y.len() {
                return "array-length";
            }
            for (p, q) in x.iter().zip(y.iter()) {
                let c = diff_class(p, q);
                if c != "same" {
                    return c;
                }
            }
            "same"
        }
        (Value::Object(x), Value::Object(y)) => {
            if x.len() != y.len() {
                return "object-keys";
            }
            let mut ks: Vec<&String> = x.keys().collect();
            ks.sort();
            for k in ks {
                match y.get(k) {
                    None => return "object-keys",
                    Some(w) => {
                        let c = diff_class(&x[k], w);
                        if c != "same" {
                            return c;
                        }
                    }
                }
            }
            "same"
        }
        (Value::String(x), Value::String(y)) => if x == y { "same" } else { "string" },
        (Value::Expression(x), Value::Expression(y)) => if x == y { "same" } else { "expression" },
        (Value::Integer(x), Value::Integer(y)) => if x == y { "same" } else { "integer" },
        (Value::Boolean(x), Value::Boolean(y)) => if x == y { "same" } else { "boolean" },
        (Value::Null, Value::Null) => "same",
        _ => "type",
    }
}

/// What a plain serde_json text round trip does to the value (cause classifier and generator
/// filter only — never the oracle).
pub fn json_roundtrip(v: &Value) -> Option<Value> {
    let s = serde_json::to_string_pretty(v).ok()?;
    serde_json::from_str::<Value>(&s).ok()
}

pub fn roundtrip_safe(v: &Value) -> bool {
    json_roundtrip(v).is_some_and(|w| veq(v, &w))
}

/// feature switches of the value generator
#[derive(Clone, Copy, Debug, Default)]
pub struct ValFeat {
    /// doubles with random bit patterns (text round trip is not guaranteed to be exact)
    pub hostile_floats: bool,
    /// NaN / +-inf
    pub nonfinite: bool,
}

fn gen_leaf(rng: &mut Rng, feat: ValFeat) -> Value {
    match rng.below(12) {
        0 | 1 => Value::Integer(*rng.pick(&[0i64, 1, -1, 42, i64::MAX, i64::MIN, 1 << 53, -(1 << 53) - 1])),
        2 => Value::Integer(rng.next_u64() as i64),
        3 | 4 => {
            if feat.nonfinite && rng.chance(1, 2) {
                Value::Number(*rng.pick(&[f64::NAN, f64::INFINITY, f64::NEG_INFINITY]))
            } else if feat.hostile_floats {
                loop {
                    let f = f64::from_bits(rng.next_u64());
                    if f.is_finite() {
                        break Value::Number(f);
                    }
                }
            } else {
                // doubles with short decimal expansions plus the classic stressors; kept only if a
                // JSON text round trip is exact, so that the clean stream stays clean
                let f = *rng.pick(&[
                    0.0f64, -0.0, 0.1, -0.1, 1.5, 2.25, 1e-7, 1e21, 1e22, 123456.789, 0.30000000000000004,
                    9007199254740993.0, 5e-324, 2.2250738585072014e-308, 1.7976931348623157e308,
                    -1.7976931348623157e308, 4.35, 0.000001, 1e15, 3.141592653589793,
                ]);
                let v = Value::Number(f);
                if roundtrip_safe(&v) {
                    v
                } else {
                    Value::Number(1.5)
                }
            }
        }
        5 | 6 => Value::String(
            rng.pick(&[
                "", "x", "hello world", "héllo ✓ 🦀", "\u{0}\n\t\"\\/", "\u{2028}\u{2029}\u{feff}", "{\"k\": 1}", "}", "null",
                "  leading and trailing  ", "a\r\nb", "\u{7f}\u{80}\u{ffff}",
            ])
            .to_string(),
        ),
        7 => Value::String("long-".repeat(1 + rng.below(40))),
        8 => Value::Boolean(rng.bool()),
        9 => Value::Null,
        10 => Value::Expression(rng.pick(&["Order.quantity * Order.price", "", "a + \"b\""]).to_string()),
        _ => Value::Integer(rng.range(-5, 5)),
    }
}

pub fn gen_value(rng: &mut Rng, feat: ValFeat, depth: u32) -> Value {
    if depth == 0 || rng.chance(3, 5) {
        return gen_leaf(rng, feat);
    }
    if rng.bool() {
        let n = rng.below(4);
        Value::Array((0..n).map(|_| gen_value(rng, feat, depth - 1)).collect())
    } else {
        let n = rng.below(4);
        let mut m = HashMap::new();
        for _ in 0..n {
            let k = rng.pick(&["", "a", "a.b", "ключ", "\"q\"", "k\n", "state.json", "Number"]).to_string();
            m.insert(k, gen_value(rng, feat, depth - 1));
        }
        Value::Object(m)
    }
}

// ------------------------------------------------------------------------------------------
// ops and cases
// ------------------------------------------------------------------------------------------

#[derive(Clone, Debug)]
pub enum Op {
    Put { k: usize, v: Value },
    PutTtl { k: usize, v: Value, ttl: u64 },
    Update { k: usize, v: Value },
    Delete { k: usize },
    Checkpoint,
    /// restore the checkpoint returned by the j-th `checkpoint` call of this history (0-based);
    /// skipped when fewer checkpoints have been taken
    Restore { j: usize },
    Advance { d: u64 },
    /// `cleanup_expired()`: drops entries whose TTL has run out; no view may change
    Cleanup,
}

impl Op {
    pub fn kind(&self) -> &'static str {
        match self {
            Op::Put { .. } => "put",
            Op::PutTtl { .. } => "put_with_ttl",
            Op::Update { .. } => "update",
            Op::Delete { .. } => "delete",
            Op::Checkpoint => "checkpoint",
            Op::Restore { .. } => "restore",
            Op::Advance { .. } => "advance",
            Op::Cleanup => "cleanup_expired",
        }
    }
    pub fn to_json(&self) -> Json {
        match self {
            Op::Put { k, v } => json!({"op": "put", "key": k, "value": vjson(v)}),
            Op::PutTtl { k, v, ttl } => json!({"op": "put_with_ttl", "key": k, "value": vjson(v), "ttl_ms": ttl}),
            Op::Update { k, v } => json!({"op": "update", "key": k, "value": vjson(v)}),
            Op::Delete { k } => json!({"op": "delete", "key": k}),
            Op::Checkpoint => json!({"op": "checkpoint"}),
            Op::Restore { j } => json!({"op": "restore", "checkpoint": j}),
            Op::Advance { d } => json!({"op": "advance", "ms": d}),
            Op::Cleanup => json!({"op": "cleanup_expired"}),
        }
    }
    pub fn from_json(j: &Json) -> Option<Op> {
        let k = || j["key"].as_u64().map(|k| (k as usize).min(2));
        let v = || vfrom(&j["value"]);
        Some(match j["op"].as_str()? {
            "put" => Op::Put { k: k()?, v: v()? },
            "put_with_ttl" => Op::PutTtl { k: k()?, v: v()?, ttl: j["ttl_ms"].as_u64()? },
            "update" => Op::Update { k: k()?, v: v()? },
            "delete" => Op::Delete { k: k()? },
            "checkpoint" => Op::Checkpoint,
            "restore" => Op::Restore { j: j["checkpoint"].as_u64()? as usize },
            "advance" => Op::Advance { d: j["ms"].as_u64()? },
            "cleanup_expired" => Op::Cleanup,
            _ => return None,
        })
    }
    fn value_mut(&mut self) -> Option<&mut Value> {
        match self {
            Op::Put { v, .. } | Op::PutTtl { v, .. } | Op::Update { v, .. } => Some(v),
            _ => None,
        }
    }
}

#[derive(Clone, Debug)]
pub struct Hist {
    /// false: virtual clock through the LD_PRELOAD shim; true: the real clock
    pub real: bool,
    pub keys: [String; 3],
    pub max_checkpoints: usize,
    /// Some(t): StateConfig.enable_ttl with default_ttl = t ms (plain `put` then carries that TTL)
    pub default_ttl: Option<u64>,
    /// true: the runner makes sure two checkpoint calls never fall into the same millisecond
    /// (advances the virtual clock by 1 ms / waits for the real millisecond to change)
    pub distinct_ms: bool,
    /// real clock only: how often the history is repeated (a violation in any repetition counts)
    pub repeat: u32,
    pub ops: Vec<Op>,
}

pub fn plain_keys() -> [String; 3] {
    ["a".to_string(), "b".to_string(), "c".to_string()]
}

impl Hist {
    pub fn to_json(&self) -> Json {
        json!({
            "kind": "history",
            "clock": if self.real { "real" } else { "virtual" },
            "keys": self.keys,
            "max_checkpoints": self.max_checkpoints,
            "default_ttl_ms": self.default_ttl,
            "distinct_ms": self.distinct_ms,
            "repeat": self.repeat,
            "ops": self.ops.iter().map(|o| o.to_json()).collect::<Vec<_>>(),
        })
    }
    pub fn from_json(j: &Json) -> Option<Hist> {
        let ks = j["keys"].as_array()?;
        if ks.len() != 3 {
            return None;
        }
        let keys = [
            ks[0].as_str()?.to_string(),
            ks[1].as_str()?.to_string(),
            ks[2].as_str()?.to_string(),
        ];
        Some(Hist {
            real: j["clock"].as_str()? == "real",
            keys,
            max_checkpoints: j["max_checkpoints"].as_u64()? as usize,
            default_ttl: j["default_ttl_ms"].as_u64(),
            distinct_ms: j["distinct_ms"].as_bool().unwrap_or(false),
            repeat: j["repeat"].as_u64().unwrap_or(1) as u32,
            ops: j["ops"].as_array()?.iter().map(Op::from_json).collect::<Option<Vec<_>>>()?,
        })
    }
    pub fn config(&self, dir: &Path) -> StateConfig {
        StateConfig {
            backend: StateBackend::File { path: dir.to_path_buf() },
            max_checkpoints: self.max_checkpoints,
            enable_ttl: self.default_ttl.is_some(),
            default_ttl: Duration::from_millis(self.default_ttl.unwrap_or(LONG_TTL_MS)),
            ..Default::default()
        }
    }
}

// ------------------------------------------------------------------------------------------
// the reference model
// ------------------------------------------------------------------------------------------

#[derive(Clone, Debug)]
pub struct MEntry {
    pub value: Value,
    pub ttl: Option<u64>,
    /// first instant at which "expired" is an acceptable reading (None: never expires)
    pub lo: Option<u64>,
    /// last instant at which "unexpired" is an acceptable reading (None with lo=Some: unknown)
    pub hi: Option<u64>,
}

#[derive(Clone, Copy, PartialEq, Debug)]
pub enum Status {
    Live,
    Dead,
    Either,
}

impl MEntry {
    pub fn status(&self, now: u64) -> Status {
        match self.lo {
            None => Status::Live,
            Some(lo) => {
                if now < lo {
                    Status::Live
                } else if self.hi.is_some_and(|h| now > h) {
                    Status::Dead
                } else {
                    Status::Either
                }
            }
        }
    }
}

/// snapshot recorded by the model for one checkpoint call: key index -> (value, had a TTL)
pub type Snap = BTreeMap<usize, (Value, bool)>;

pub fn snap_eq_view(s: &Snap, view: &[Option<Value>]) -> bool {
    (0..3).all(|k| oveq(&s.get(&k).map(|e| e.0.clone()), &view[k]))
}

pub fn snap_eq(a: &Snap, b: &Snap) -> bool {
    a.len() == b.len() && a.iter().all(|(k, v)| b.get(k).is_some_and(|w| veq(&v.0, &w.0)))
}

pub fn snap_show(s: &Snap, keys: &[String; 3]) -> String {
    let parts: Vec<String> = s.iter().map(|(k, v)| format!("{:?}: {}", keys[*k], vshow(&v.0))).collect();
    format!("{{{}}}", parts.join(", "))
}

pub fn view_show(v: &[Option<Value>], keys: &[String; 3]) -> String {
    let parts: Vec<String> = v
        .iter()
        .enumerate()
        .filter_map(|(k, v)| v.as_ref().map(|v| format!("{:?}: {}", keys[k], vshow(v))))
        .collect();
    format!("{{{}}}", parts.join(", "))
}

#[derive(Clone, Debug)]
pub struct Cp {
    pub id: String,
    pub snap: Snap,
    /// keys that had expired (and were neither deleted nor put again) when the checkpoint was taken
    pub ghosts: BTreeSet<usize>,
    /// instant of the call: virtual ms, or the millisecond read right after the call on the real clock
    pub t_hi: u64,
}

/// pure model state (also used without a store by the crash part, see `simulate`)
#[derive(Clone, Debug, Default)]
pub struct Model {
    pub live: BTreeMap<usize, MEntry>,
    pub ghosts: BTreeSet<usize>,
}

impl Model {
    pub fn put(&mut self, k: usize, v: Value, ttl: Option<u64>, now: u64) {
        self.ghosts.remove(&k);
        self.live.insert(
            k,
            MEntry { value: v, ttl, lo: ttl.map(|t| now.saturating_add(t)), hi: ttl.map(|t| now.saturating_add(t)) },
        );
    }
    /// returns whether the key is (definitely) live
    pub fn is_live(&self, k: usize, now: u64) -> Option<bool> {
        match self.live.get(&k) {
            None => Some(false),
            Some(e) => match e.status(now) {
                Status::Live => Some(true),
                Status::Dead => Some(false),
                Status::Either => None,
            },
        }
    }
    pub fn update_ok(&mut self, k: usize, v: Value, now: u64) {
        if let Some(e) = self.live.get_mut(&k) {
            e.value = v;
            if let (Some(t), Some(hi)) = (e.ttl, e.hi) {
                // reading B: update restarts the TTL
                e.hi = Some(hi.max(now.saturating_add(t)));
            }
        }
    }
    pub fn delete(&mut self, k: usize) {
        self.live.remove(&k);
        self.ghosts.remove(&k);
    }
    /// move entries that are definitely expired at `now` to the ghost set
    pub fn sweep(&mut self, now: u64) {
        let dead: Vec<usize> = self
            .live
            .iter()
            .filter(|(_, e)| e.status(now) == Status::Dead)
            .map(|(k, _)| *k)
            .collect();
        for k in dead {
            self.live.remove(&k);
            self.ghosts.insert(k);
        }
    }
    pub fn snapshot(&self) -> Snap {
        self.live.iter().map(|(k, e)| (*k, (e.value.clone(), e.lo.is_some()))).collect()
    }
    pub fn restore(&mut self, s: &Snap, now: u64) {
        self.ghosts.clear();
        self.live = s
            .iter()
            .map(|(k, (v, had_ttl))| {
                (
                    *k,
                    MEntry {
                        value: v.clone(),
                        ttl: None,
                        lo: if *had_ttl { Some(now + 1) } else { None },
                        hi: None,
                    },
                )
            })
            .collect();
    }
    pub fn view(&self) -> Vec<Option<Value>> {
        (0..3).map(|k| self.live.get(&k).map(|e| e.value.clone())).collect()
    }
}

/// Model-only execution of a restore-free history (crash scenarios): the snapshot of every
/// checkpoint op. None when a TTL status would be undecided at a checkpoint instant.
pub fn simulate(h: &Hist) -> Option<Vec<Snap>> {
    let mut m = Model::default();
    let mut now = BASE_MS;
    let mut out = Vec::new();
    for op in &h.ops {
        m.sweep(now);
        match op {
            Op::Put { k, v } => m.put(*k, v.clone(), h.default_ttl, now),
            Op::PutTtl { k, v, ttl } => m.put(*k, v.clone(), Some(*ttl), now),
            Op::Update { k, v } => match m.is_live(*k, now) {
                Some(true) => {
                    // TTL restart is an open reading: refuse scenarios that depend on it
                    if m.live[k].ttl.is_some() {
                        return None;
                    }
                    m.update_ok(*k, v.clone(), now)
                }
                Some(false) => {}
                None => return None,
            },
            Op::Delete { k } => m.delete(*k),
            Op::Checkpoint => {
                if (0..3).any(|k| m.is_live(k, now).is_none()) {
                    return None;
                }
                out.push(m.snapshot());
            }
            Op::Restore { .. } => return None,
            Op::Advance { d } => now += d,
            Op::Cleanup => {}
        }
    }
    Some(out)
}

// ------------------------------------------------------------------------------------------
// the monitored runner
// ------------------------------------------------------------------------------------------

#[derive(Clone, Debug)]
pub struct Failure {
    pub clause: String,
    pub cause: String,
    pub detail: String,
}

#[derive(Default, Debug)]
pub struct HObs {
    pub counts: BTreeMap<&'static str, u64>,
    pub nontrivial: bool,
    pub skipped_undefined: bool,
    pub no_clock: bool,
    pub harness_error: Option<String>,
}

impl HObs {
    fn c(&mut self, k: &'static str) {
        *self.counts.entry(k).or_insert(0) += 1;
    }
    fn add(&mut self, k: &'static str, n: u64) {
        *self.counts.entry(k).or_insert(0) += n;
    }
}

/// `--replay` with VERIF_C20_IGNORE_ID_COLLISION=1: do not stop at a colliding checkpoint id, so
/// that the consequences (wrong state restored, newer checkpoint deleted by retention) show up.
/// Never set during exploration.
pub static IGNORE_ID_COLLISIONS: std::sync::atomic::AtomicBool = std::sync::atomic::AtomicBool::new(false);

pub fn real_ms() -> u64 {
    std::time::SystemTime::now()
        .duration_since(std::time::UNIX_EPOCH)
        .map(|d| d.as_millis() as u64)
        .unwrap_or(0)
}

fn wait_real_ms_after(t: u64) -> u64 {
    loop {
        let n = real_ms();
        if n > t {
            return n;
        }
        std::hint::spin_loop();
    }
}

pub struct View {
    pub get: Vec<Option<Value>>,
}

/// Read every public view of the store and check that they agree with each other.
fn observe(store: &StateStore, h: &Hist) -> Result<View, Failure> {
    let mut get = Vec::new();
    for k in 0..3 {
        match store.get(&h.keys[k]) {
            Ok(v) => get.push(v),
            Err(e) => {
                return Err(Failure {
                    clause: "views-agree".into(),
                    cause: "get-returned-error".into(),
                    detail: format!("get({:?}) returned Err({})", h.keys[k], e),
                })
            }
        }
    }
    let mut keys = store.keys();
    keys.sort();
    let want: Vec<String> = {
        let mut w: Vec<String> = (0..3).filter(|k| get[*k].is_some()).map(|k| h.keys[k].clone()).collect();
        w.sort();
        w
    };
    if keys != want {
        return Err(Failure {
            clause: "views-agree".into(),
            cause: "keys-vs-get".into(),
            detail: format!("keys() = {:?} but get() finds exactly {:?}", keys, want),
        });
    }
    let len = store.len();
    if len != want.len() {
        return Err(Failure {
            clause: "views-agree".into(),
            cause: "len-vs-get".into(),
            detail: format!("len() = {} but get() finds {} keys {:?}", len, want.len(), want),
        });
    }
    for k in 0..3 {
        if store.contains(&h.keys[k]) != get[k].is_some() {
            return Err(Failure {
                clause: "views-agree".into(),
                cause: "contains-vs-get".into(),
                detail: format!("contains({:?}) = {} but get() = {}", h.keys[k], !get[k].is_some(), ovshow(&get[k])),
            });
        }
    }
    if store.is_empty() != want.is_empty() {
        return Err(Failure {
            clause: "views-agree".into(),
            cause: "is_empty-vs-get".into(),
            detail: format!("is_empty() = {} but get() finds {:?}", !want.is_empty(), want),
        });
    }
    Ok(View { get })
}

/// Resolve undecided TTL statuses by the observation (accepted, then held) and compare the view
/// with the model. Returns the first mismatch as (key, expected, observed).
fn narrow_and_diff(m: &mut Model, view: &View, now: u64, obs: &mut HObs) -> Option<(usize, Option<Value>, Option<Value>)> {
    m.sweep(now);
    for k in 0..3 {
        let st = m.live.get(&k).map(|e| e.status(now));
        if st == Some(Status::Either) {
            match &view.get[k] {
                None => {
                    obs.c("ttl_undecided_instant_observed_expired");
                    m.live.remove(&k);
                    m.ghosts.insert(k);
                }
                Some(_) => {
                    obs.c("ttl_undecided_instant_observed_unexpired");
                    if let Some(e) = m.live.get_mut(&k) {
                        e.lo = Some(now + 1);
                    }
                }
            }
        }
    }
    for k in 0..3 {
        let exp = m.live.get(&k).map(|e| e.value.clone());
        if !oveq(&exp, &view.get[k]) {
            return Some((k, exp, view.get[k].clone()));
        }
    }
    None
}

fn must_retain(j: usize, taken: usize, max: usize) -> bool {
    j + max >= taken
}

fn run_once(h: &Hist, dir: &Path, obs: &mut HObs) -> Option<Failure> {
    let virt = !h.real;
    if virt && !clock::available() {
        obs.no_clock = true;
        return None;
    }
    let mut now = if virt {
        clock::set_ms(BASE_MS);
        BASE_MS
    } else {
        clock::passthrough();
        real_ms()
    };
    let reads0 = clock::fake_reads();
    let mut store = StateStore::with_config(h.config(dir));
    let mut m = Model::default();
    let mut cps: Vec<Cp> = Vec::new();
    // checkpoint CALL index -> index in `cps` (None: the call returned Err and made no checkpoint)
    let mut calls: Vec<Option<usize>> = Vec::new();

    macro_rules! step_compare {
        ($i:expr, $op:expr) => {{
            if !virt {
                now = real_ms();
            }
            let view = match observe(&store, h) {
                Ok(v) => v,
                Err(mut f) => {
                    f.detail = format!("after op #{} {}: {}", $i, $op, f.detail);
                    return Some(f);
                }
            };
            if let Some((k, exp, got)) = narrow_and_diff(&mut m, &view, now, obs) {
                let opk: &str = $op;
                let cause = match (&exp, &got) {
                    (None, Some(_)) => {
                        if m.ghosts.contains(&k) {
                            "expired-key-visible".to_string()
                        } else {
                            format!("extra-key:after-{}", opk)
                        }
                    }
                    (Some(_), None) => {
                        if m.live.get(&k).is_some_and(|e| e.lo.is_some()) {
                            "ttl-key-expired-early".to_string()
                        } else {
                            format!("key-lost:after-{}", opk)
                        }
                    }
                    _ => format!("wrong-value:after-{}", opk),
                };
                return Some(Failure {
                    clause: "live-view".into(),
                    cause,
                    detail: format!(
                        "after op #{} {} at t0+{} ms: key {:?} expected {} observed {}",
                        $i,
                        opk,
                        now.saturating_sub(BASE_MS),
                        h.keys[k],
                        ovshow(&exp),
                        ovshow(&got)
                    ),
                });
            }
        }};
    }

    for (i, op) in h.ops.iter().enumerate() {
        obs.c(match op {
            Op::Put { .. } => "op_put",
            Op::PutTtl { .. } => "op_put_with_ttl",
            Op::Update { .. } => "op_update",
            Op::Delete { .. } => "op_delete",
            Op::Checkpoint => "op_checkpoint",
            Op::Restore { .. } => "op_restore",
            Op::Advance { .. } => "op_advance",
            Op::Cleanup => "op_cleanup_expired",
        });
        if !virt {
            now = real_ms();
        }
        m.sweep(now);
        match op {
            Op::Put { k, v } => {
                if let Err(_e) = store.put(h.keys[*k].clone(), v.clone()) {
                    obs.skipped_undefined = true;
                    return None;
                }
                m.put(*k, v.clone(), h.default_ttl, now);
            }
            Op::PutTtl { k, v, ttl } => {
                let t = if virt { *ttl } else { LONG_TTL_MS };
                if let Err(_e) = store.put_with_ttl(h.keys[*k].clone(), v.clone(), Duration::from_millis(t)) {
                    obs.skipped_undefined = true;
                    return None;
                }
                m.put(*k, v.clone(), Some(t), now);
            }
            Op::Update { k, v } => {
                let live = m.is_live(*k, now);
                let r = store.update(&h.keys[*k], v.clone());
                match (live, r.is_ok()) {
                    (Some(true), true) => m.update_ok(*k, v.clone(), now),
                    (Some(true), false) => obs.c("update_rejected_on_live_key"),
                    (Some(false), false) => obs.c("update_rejected_on_absent_key"),
                    (Some(false), true) => {
                        // upsert semantics are not stated: stop judging this history
                        obs.skipped_undefined = true;
                        return None;
                    }
                    (None, _) => {
                        // cannot happen: every instant is narrowed by the preceding observation
                        obs.skipped_undefined = true;
                        return None;
                    }
                }
            }
            Op::Delete { k } => {
                if store.delete(&h.keys[*k]).is_err() {
                    obs.skipped_undefined = true;
                    return None;
                }
                m.delete(*k);
            }
            Op::Advance { d } => {
                if virt {
                    now += d;
                    clock::set_ms(now);
                } else if *d > 0 {
                    now = wait_real_ms_after(real_ms());
                }
            }
            Op::Cleanup => {
                // whatever it drops was invisible already (the step comparison below sees the rest);
                // it cannot drop more entries than there are keys with a TTL that may have run out
                let n = store.cleanup_expired();
                let may_be_expired = m.ghosts.len() + m.live.values().filter(|e| e.lo.is_some()).count();
                if n > may_be_expired {
                    return Some(Failure {
                        clause: "views-match-model".into(),
                        cause: "cleanup_expired-dropped-unexpired-entries".into(),
                        detail: format!("op #{} cleanup_expired() reported {} dropped entries, at most {} entries can have expired", i, n, may_be_expired),
                    });
                }
                if n > 0 {
                    obs.c("cleanup_expired_calls_that_dropped_entries");
                }
                m.sweep(now);
                m.ghosts.clear();
            }
            Op::Checkpoint => {
                if h.distinct_ms {
                    if let Some(last) = cps.last() {
                        if virt {
                            if last.t_hi >= now {
                                now += 1;
                                clock::set_ms(now);
                                step_compare!(i, "advance");
                            }
                        } else {
                            now = wait_real_ms_after(last.t_hi);
                        }
                    }
                }
                let before = if virt { now } else { real_ms() };
                let r = store.checkpoint(format!("cp{}", cps.len()));
                let after = if virt { now } else { real_ms() };
                let id = match r {
                    Ok(id) => id,
                    Err(e) => {
                        if m.live.values().any(|e| has_nonfinite(&e.value)) {
                            // refusing to checkpoint a state JSON cannot represent promises nothing
                            obs.c("checkpoint_refused_for_non_finite_float_state");
                            calls.push(None);
                            step_compare!(i, "checkpoint");
                            continue;
                        }
                        obs.harness_error = Some(format!("checkpoint on a healthy scratch directory returned Err({})", e));
                        return None;
                    }
                };
                if !virt && cps.iter().any(|p| p.id == id) {
                    obs.c("real_clock_checkpoint_id_collisions_observed");
                }
                if cps.last().is_some_and(|p| p.t_hi >= before) {
                    obs.c("checkpoint_pairs_possibly_in_one_millisecond");
                }
                for (pi, p) in cps.iter().enumerate() {
                    if p.id == id {
                        let same_ms = p.t_hi >= before;
                        obs.c("checkpoint_id_collisions_observed");
                        if IGNORE_ID_COLLISIONS.load(std::sync::atomic::Ordering::SeqCst) {
                            // diagnosis aid of `--replay` only: show what the collision leads to
                            continue;
                        }
                        return Some(Failure {
                            clause: "distinct-ids".into(),
                            cause: if same_ms { "same-millisecond".into() } else { "distinct-instants".into() },
                            detail: format!(
                                "checkpoint call #{} (op #{}) returned id {:?}, which checkpoint call #{} had already returned; {}; snapshots {} vs {}",
                                cps.len(),
                                i,
                                id,
                                pi,
                                if same_ms { "both calls fell into the same clock millisecond" } else { "the calls were at least one clock millisecond apart" },
                                snap_show(&p.snap, &h.keys),
                                snap_show(&m.snapshot(), &h.keys)
                            ),
                        });
                    }
                }
                if !m.ghosts.is_empty() {
                    obs.c("checkpoints_taken_while_an_expired_key_lingers");
                }
                calls.push(Some(cps.len()));
                cps.push(Cp { id, snap: m.snapshot(), ghosts: m.ghosts.clone(), t_hi: after });
                // list_checkpoints shows every checkpoint that retention must keep
                let listed: Vec<String> = store.list_checkpoints().into_iter().map(|c| c.id).collect();
                for (j, c) in cps.iter().enumerate() {
                    if must_retain(j, cps.len(), h.max_checkpoints) && !listed.contains(&c.id) {
                        return Some(Failure {
                            clause: "list-checkpoints".into(),
                            cause: "retained-id-not-listed".into(),
                            detail: format!(
                                "after checkpoint call #{} (max_checkpoints {}): id {:?} of call #{} is not in list_checkpoints() = {:?}",
                                cps.len() - 1,
                                h.max_checkpoints,
                                c.id,
                                j,
                                listed
                            ),
                        });
                    }
                }
                if cps.len() > h.max_checkpoints {
                    obs.c("checkpoints_beyond_retention_bound");
                }
            }
            Op::Restore { j } => {
                let Some(Some(ci)) = calls.get(*j).copied() else {
                    obs.c("restore_op_skipped_no_such_checkpoint");
                    continue;
                };
                let cp = cps[ci].clone();
                let pre = m.view();
                let retained = must_retain(ci, cps.len(), h.max_checkpoints);
                let r = store.restore(&cp.id);
                match r {
                    Ok(()) => {
                        obs.c(if retained { "restore_ok" } else { "restore_ok_of_checkpoint_beyond_retention_bound" });
                        if !snap_eq_view(&cp.snap, &pre) {
                            obs.nontrivial = true;
                            obs.c("restores_that_had_to_undo_later_changes");
                        }
                        m.restore(&cp.snap, now);
                        let view = match observe(&store, h) {
                            Ok(v) => v,
                            Err(mut f) => {
                                f.detail = format!("after op #{} restore: {}", i, f.detail);
                                return Some(f);
                            }
                        };
                        if !snap_eq_view(&cp.snap, &view.get) {
                            let cause = classify_restore(&cps, ci, &pre, &view.get);
                            return Some(Failure {
                                clause: "restore-state".into(),
                                cause,
                                detail: format!(
                                    "op #{}: restore of checkpoint call #{} (id {:?}{}) returned Ok but the store holds {} while the state at checkpoint time was {} (state just before the restore: {})",
                                    i,
                                    j,
                                    cp.id,
                                    if retained { "" } else { ", beyond the retention bound" },
                                    view_show(&view.get, &h.keys),
                                    snap_show(&cp.snap, &h.keys),
                                    view_show(&pre, &h.keys)
                                ),
                            });
                        }
                    }
                    Err(e) => {
                        if retained {
                            let cause = classify_restore_err(&cp, dir);
                            return Some(Failure {
                                clause: "restore-fails".into(),
                                cause,
                                detail: format!(
                                    "op #{}: restore of checkpoint call #{} (id {:?}; {} checkpoints taken, max_checkpoints {}) returned Err({}); state at checkpoint time was {}",
                                    i,
                                    j,
                                    cp.id,
                                    cps.len(),
                                    h.max_checkpoints,
                                    e,
                                    snap_show(&cp.snap, &h.keys)
                                ),
                            });
                        }
                        obs.c("restore_err_of_checkpoint_beyond_retention_bound");
                    }
                }
            }
        }
        step_compare!(i, op.kind());
    }
    obs.add("fake_clock_reads_by_the_store", clock::fake_reads().saturating_sub(reads0));
    obs.add("checkpoints_taken", cps.len() as u64);
    None
}

fn classify_restore(cps: &[Cp], j: usize, pre: &[Option<Value>], got: &[Option<Value>]) -> String {
    let snap = &cps[j].snap;
    for (i, c) in cps.iter().enumerate() {
        if i != j && !snap_eq(&c.snap, snap) && snap_eq_view(&c.snap, got) {
            return "state-of-another-checkpoint".into();
        }
    }
    for k in 0..3 {
        let exp = snap.get(&k).map(|e| e.0.clone());
        if oveq(&exp, &got[k]) {
            continue;
        }
        return match (&exp, &got[k]) {
            (Some(e), Some(g)) => {
                if json_roundtrip(e).is_some_and(|r| veq(&r, g)) {
                    format!("value-changed-by-json-text-round-trip:{}", diff_class(e, g))
                } else if oveq(&pre[k], &got[k]) {
                    "pre-restore-value-survives".into()
                } else {
                    "wrong-value".into()
                }
            }
            (None, Some(_)) => {
                if cps[j].ghosts.contains(&k) {
                    "expired-key-restored".into()
                } else if oveq(&pre[k], &got[k]) {
                    "pre-restore-key-survives".into()
                } else {
                    "extra-key".into()
                }
            }
            (Some(_), None) => "key-missing-after-restore".into(),
            (None, None) => continue,
        };
    }
    "unexplained".into()
}

fn classify_restore_err(cp: &Cp, dir: &Path) -> String {
    if cp.snap.values().any(|(v, _)| has_nonfinite(v)) {
        return "non-finite-float-in-state".into();
    }
    let d = dir.join(&cp.id);
    if !d.exists() {
        return "checkpoint-directory-missing".into();
    }
    let f = d.join("state.json");
    if !f.exists() {
        // the property's anchor names <path>/<id>/state.json; any other layout lands here
        return "state-file-missing".into();
    }
    match std::fs::read(&f) {
        Ok(b) => {
            if serde_json::from_slice::<Json>(&b).is_err() {
                "state-file-not-json".into()
            } else {
                "state-file-present-and-json".into()
            }
        }
        Err(_) => "state-file-unreadable".into(),
    }
}

/// Run one history (virtual clock: once; real clock: `repeat` times) in `dir` (created/removed
/// here). The fake clock is released afterwards.
pub fn run_history(h: &Hist, dir: &Path) -> (Option<Failure>, HObs) {
    let mut obs = HObs::default();
    let reps = if h.real { h.repeat.max(1) } else { 1 };
    for _ in 0..reps {
        if dir.exists() {
            let _ = std::fs::remove_dir_all(dir);
        }
        let r = run_once(h, dir, &mut obs);
        clock::passthrough();
        if dir.exists() {
            let _ = std::fs::remove_dir_all(dir);
        }
        if r.is_some() || obs.no_clock || obs.harness_error.is_some() || obs.skipped_undefined {
            return (r, obs);
        }
    }
    (None, obs)
}

/// run_history with panics turned into a `no-panic` failure
pub fn run_history_caught(h: &Hist, dir: &Path) -> (Option<Failure>, HObs) {
    match pan::catch_frames(|| run_history(h, dir)) {
        Ok(r) => r,
        Err(p) => {
            clock::passthrough();
            let _ = std::fs::remove_dir_all(dir);
            (
                Some(Failure {
                    clause: "no-panic".into(),
                    cause: format!("{}|{}", p.class(), p.frame),
                    detail: format!("panic: {} at {}:{}", p.msg, p.file, p.line),
                }),
                HObs::default(),
            )
        }
    }
}

pub fn to_violation(case: Json, f: &Failure) -> Violation {
    Violation {
        clause: f.clause.clone(),
        sig: format!("C20|{}|{}", f.clause, f.cause),
        detail: f.detail.clone(),
        case,
    }
}

// ------------------------------------------------------------------------------------------
// shrinking
// ------------------------------------------------------------------------------------------

fn fails_same(h: &Hist, dir: &Path, clause: &str) -> bool {
    matches!(run_history_caught(h, dir), (Some(f), _) if f.clause == clause)
}

/// Delta debugging over the op list, then over the values and the configuration, keeping only
/// candidates on which the SAME clause still fails.
pub fn shrink_hist(h: &Hist, clause: &str, dir: &Path) -> Hist {
    let mut cur = h.clone();
    // ops (restore indices refer to checkpoint calls; a restore without its checkpoint is skipped
    // by the runner, so every sub-list is a well-formed history)
    let ops = {
        let base = cur.clone();
        let mut fails = |ops: &[Op]| fails_same(&Hist { ops: ops.to_vec(), ..base.clone() }, dir, clause);
        shrink_list(&cur.ops, &mut fails)
    };
    cur.ops = ops;
    // re-number restore targets downwards where possible is not needed: indices stay valid.
    // values: replace by Integer(1), else descend into children
    for i in 0..cur.ops.len() {
        let mut budget = 30;
        loop {
            budget -= 1;
            if budget == 0 {
                break;
            }
            let Some(v) = cur.ops[i].clone().value_mut().cloned() else { break };
            let mut cands: Vec<Value> = Vec::new();
            if !veq(&v, &Value::Integer(1)) {
                cands.push(Value::Integer(1));
            }
            match &v {
                Value::Array(a) => cands.extend(a.iter().cloned()),
                Value::Object(o) => cands.extend(o.values().cloned()),
                _ => {}
            }
            let mut progressed = false;
            for c in cands {
                let mut t = cur.clone();
                if let Some(slot) = t.ops[i].value_mut() {
                    *slot = c;
                }
                if fails_same(&t, dir, clause) {
                    cur = t;
                    progressed = true;
                    break;
                }
            }
            if !progressed {
                break;
            }
        }
    }
    // configuration
    let mut tries: Vec<Hist> = Vec::new();
    if cur.keys != plain_keys() {
        tries.push(Hist { keys: plain_keys(), ..cur.clone() });
    }
    for t in tries {
        if fails_same(&t, dir, clause) {
            cur = t;
        }
    }
    if cur.default_ttl.is_some() {
        let t = Hist { default_ttl: None, ..cur.clone() };
        if fails_same(&t, dir, clause) {
            cur = t;
        }
    }
    if cur.max_checkpoints != 3 {
        let t = Hist { max_checkpoints: 3, ..cur.clone() };
        if fails_same(&t, dir, clause) {
            cur = t;
        }
    }
    if !cur.distinct_ms {
        let t = Hist { distinct_ms: true, ..cur.clone() };
        if fails_same(&t, dir, clause) {
            cur = t;
        }
    }
    // advance amounts: try 1
    for i in 0..cur.ops.len() {
        if let Op::Advance { d } = cur.ops[i] {
            if d > 1 {
                let mut t = cur.clone();
                t.ops[i] = Op::Advance { d: 1 };
                if fails_same(&t, dir, clause) {
                    cur = t;
                }
            }
        }
    }
    cur
}

// ------------------------------------------------------------------------------------------
// generators
// ------------------------------------------------------------------------------------------

pub const EXH_TTL: u64 = 3;

/// The 22-letter alphabet of the exhaustive enumeration.
pub fn exh_alphabet() -> Vec<Op> {
    let i = Value::Integer;
    let mut a = vec![
        Op::Put { k: 0, v: i(1) },
        Op::Put { k: 1, v: i(1) },
        Op::Put { k: 2, v: i(1) },
        Op::Put { k: 0, v: i(2) },
    ];
    for k in 0..3 {
        a.push(Op::PutTtl { k, v: i(3), ttl: EXH_TTL });
    }
    for k in 0..3 {
        a.push(Op::Update { k, v: i(4) });
    }
    for k in 0..3 {
        a.push(Op::Delete { k });
    }
    a.push(Op::Checkpoint);
    for j in 0..3 {
        a.push(Op::Restore { j });
    }
    for d in [1, EXH_TTL - 1, EXH_TTL, EXH_TTL + 1] {
        a.push(Op::Advance { d });
    }
    a.push(Op::Cleanup);
    a
}

/// Enumerate every sequence of exactly `len` letters in which each restore refers to a checkpoint
/// taken earlier in the sequence, and which contains at least one checkpoint; sharded by the first
/// two letters. `f(ops, number of checkpoint ops)`.
pub fn enumerate_exhaustive(len: usize, shard: usize, nshards: usize, f: &mut dyn FnMut(&[Op], usize) -> bool) {
    let alpha = exh_alphabet();
    let a = alpha.len();
    fn rec(
        alpha: &[Op],
        seq: &mut Vec<usize>,
        ops: &mut Vec<Op>,
        ncp: usize,
        len: usize,
        shard: usize,
        nshards: usize,
        f: &mut dyn FnMut(&[Op], usize) -> bool,
    ) -> bool {
        if seq.len() == len {
            if ncp == 0 {
                return true;
            }
            return f(ops, ncp);
        }
        // a sequence with no checkpoint so far needs one in the remaining positions: always possible
        for (x, op) in alpha.iter().enumerate() {
            if let Op::Restore { j } = op {
                if *j >= ncp {
                    continue;
                }
            }
            seq.push(x);
            if seq.len() == 2.min(len) {
                let idx = if len >= 2 { seq[0] * alpha.len() + seq[1] } else { seq[0] };
                if idx % nshards != shard {
                    seq.pop();
                    continue;
                }
            }
            ops.push(op.clone());
            let n2 = ncp + matches!(op, Op::Checkpoint) as usize;
            let go = rec(alpha, seq, ops, n2, len, shard, nshards, f);
            ops.pop();
            seq.pop();
            if !go {
                return false;
            }
        }
        true
    }
    let _ = a;
    let mut seq = Vec::new();
    let mut ops = Vec::new();
    rec(&alpha, &mut seq, &mut ops, 0, len, shard, nshards, f);
}

pub fn key_sets(rng: &mut Rng) -> [String; 3] {
    if rng.chance(3, 4) {
        plain_keys()
    } else {
        match rng.below(3) {
            0 => ["".to_string(), "k/1".to_string(), "ключ\n".to_string()],
            1 => ["a.b".to_string(), "a".to_string(), "..".to_string()],
            _ => ["state.json".to_string(), "\"q\"".to_string(), "k\u{0}z".to_string()],
        }
    }
}

/// Random history of 1..=10 ops over 3 keys.
pub fn gen_random(rng: &mut Rng) -> Hist {
    let len = 1 + rng.below(10);
    let feat = ValFeat { hostile_floats: rng.chance(1, 8), nonfinite: rng.chance(1, 16) };
    let main_ttl = *rng.pick(&[1u64, 2, 3, 5, 10]);
    let default_ttl = if rng.chance(1, 8) { Some(*rng.pick(&[2u64, 3, 5])) } else { None };
    let deltas = [0, 1, main_ttl.saturating_sub(1), main_ttl, main_ttl + 1];
    let mut ops = Vec::new();
    let mut ncp = 0usize;
    for pos in 0..len {
        let r = rng.below(100);
        let op = if r < 20 {
            Op::Put { k: rng.below(3), v: gen_value(rng, feat, 2) }
        } else if r < 32 {
            // (one TTL in 12 is "for ever": u64::MAX ms, or a value whose sum with the clock overflows)
            let ttl = if rng.chance(1, 12) {
                *rng.pick(&[u64::MAX, u64::MAX - 1_000, 1u64 << 63, u64::MAX - 1_790_000_000_000])
            } else if rng.chance(3, 4) {
                main_ttl
            } else {
                *rng.pick(&[1u64, 2, 3, 5, 10])
            };
            Op::PutTtl { k: rng.below(3), v: gen_value(rng, feat, 2), ttl }
        } else if r < 42 {
            Op::Update { k: rng.below(3), v: gen_value(rng, feat, 2) }
        } else if r < 50 {
            Op::Delete { k: rng.below(3) }
        } else if r < 70 || (ncp == 0 && pos + 2 >= len) {
            ncp += 1;
            Op::Checkpoint
        } else if r < 85 {
            if ncp == 0 {
                ncp += 1;
                Op::Checkpoint
            } else {
                Op::Restore { j: rng.below(ncp) }
            }
        } else if r < 88 {
            Op::Cleanup
        } else {
            let d = if let Some(t) = default_ttl {
                if rng.chance(1, 3) {
                    *rng.pick(&[t - 1, t, t + 1])
                } else {
                    *rng.pick(&deltas)
                }
            } else {
                *rng.pick(&deltas)
            };
            Op::Advance { d }
        };
        ops.push(op);
    }
    Hist {
        real: false,
        keys: key_sets(rng),
        max_checkpoints: 1 + rng.below(3),
        default_ttl,
        distinct_ms: !rng.chance(1, 4),
        repeat: 1,
        ops,
    }
}

/// Targeted: bursts of back-to-back checkpoints with mutations in between, then every checkpoint
/// restored (the shape of the §7 probe). `same_ms` decides whether the runner separates them.
pub fn gen_burst(rng: &mut Rng, same_ms: bool) -> Hist {
    let feat = ValFeat::default();
    let n = 2 + rng.below(3);
    let mut ops = vec![Op::Put { k: rng.below(3), v: gen_value(rng, feat, 1) }];
    for _ in 0..n {
        ops.push(Op::Checkpoint);
        match rng.below(3) {
            0 => ops.push(Op::Put { k: rng.below(3), v: gen_value(rng, feat, 1) }),
            1 => ops.push(Op::Delete { k: rng.below(3) }),
            _ => ops.push(Op::Update { k: rng.below(3), v: gen_value(rng, feat, 1) }),
        }
    }
    let mut order: Vec<usize> = (0..n).collect();
    rng.shuffle(&mut order);
    for j in order {
        ops.push(Op::Restore { j });
    }
    ops.truncate(10);
    Hist {
        real: false,
        keys: plain_keys(),
        max_checkpoints: if rng.chance(1, 2) { 3 } else { 1 + rng.below(3) },
        default_ttl: None,
        distinct_ms: !same_ms,
        repeat: 1,
        ops,
    }
}

/// The real-clock twin of a history: TTLs become one hour, advances become "wait for the next
/// millisecond".
pub fn to_real(h: &Hist, repeat: u32) -> Hist {
    let mut r = h.clone();
    r.real = true;
    r.default_ttl = None;
    r.repeat = repeat;
    for op in r.ops.iter_mut() {
        match op {
            Op::PutTtl { ttl, .. } => *ttl = LONG_TTL_MS,
            Op::Advance { d } => *d = (*d).min(1),
            _ => {}
        }
    }
    r
}
