//! Stdout/stderr hygiene. The library prints a lot (println!/eprintln! in workflow, retract,
//! debug paths). `init()` points fd 1 and fd 2 at /dev/null and keeps private dups for the
//! framework's own lines, so the only lines on the real stdout are ours.

use std::io::Write;
use std::os::fd::{FromRawFd, RawFd};
use std::sync::atomic::{AtomicI32, Ordering};
use std::sync::Mutex;

static OUT_FD: AtomicI32 = AtomicI32::new(1);
static ERR_FD: AtomicI32 = AtomicI32::new(2);
static LOCK: Mutex<()> = Mutex::new(());

/// Redirect fd 1 and 2 to /dev/null (unless VERIF_NOISY=1), keep dups for `out`/`err`.
pub fn init() {
    if std::env::var("VERIF_NOISY").map(|v| v == "1").unwrap_or(false) {
        return;
    }
    unsafe {
        let o = libc::fcntl(1, libc::F_DUPFD_CLOEXEC, 100);
        let e = libc::fcntl(2, libc::F_DUPFD_CLOEXEC, 100);
        let null = libc::open(b"/dev/null\0".as_ptr() as *const libc::c_char, libc::O_WRONLY);
        if o >= 0 && e >= 0 && null >= 0 {
            libc::dup2(null, 1);
            libc::dup2(null, 2);
            libc::close(null);
            OUT_FD.store(o, Ordering::SeqCst);
            ERR_FD.store(e, Ordering::SeqCst);
        }
    }
}

fn write_fd(fd: RawFd, s: &str) {
    let _g = LOCK.lock().unwrap_or_else(|p| p.into_inner());
    // Borrow the fd without closing it.
    let mut f = unsafe { std::fs::File::from_raw_fd(fd) };
    let _ = f.write_all(s.as_bytes());
    let _ = f.flush();
    std::mem::forget(f);
}

/// Write one line to the real stdout.
pub fn out(s: &str) {
    let mut line = s.to_string();
    if !line.ends_with('\n') {
        line.push('\n');
    }
    write_fd(OUT_FD.load(Ordering::SeqCst), &line);
}

/// Write one line to the real stderr.
pub fn err(s: &str) {
    let mut line = s.to_string();
    if !line.ends_with('\n') {
        line.push('\n');
    }
    write_fd(ERR_FD.load(Ordering::SeqCst), &line);
}

/// Raw fd of the real stdout (for children that must report on it).
pub fn real_stdout_fd() -> RawFd {
    OUT_FD.load(Ordering::SeqCst)
}

#[macro_export]
macro_rules! out {
    ($($arg:tt)*) => { $crate::quiet::out(&format!($($arg)*)) };
}
#[macro_export]
macro_rules! err {
    ($($arg:tt)*) => { $crate::quiet::err(&format!($($arg)*)) };
}
