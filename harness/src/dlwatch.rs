//! Deadlock watchdog for checks that call blocking, multi-threaded library code (C15, C19).
//!
//! Work runs on detached threads; the caller waits for their results while a monitor samples the
//! process once per second. "Does not return" is decided on a logical criterion, not on elapsed
//! time of the call: over `IDLE_SAMPLES` consecutive samples (a) no shard made progress, (b) every
//! thread of the process other than the monitor was in state S (sleeping) — none runnable, none in
//! disk wait — and (c) the process consumed (almost) no CPU time. A slow machine or a loaded
//! machine leaves threads runnable (state R) or burning CPU, so load cannot produce this verdict;
//! only threads that wait for each other (or for nothing) can.

use rre_verif::*;
use std::sync::atomic::{AtomicU64, Ordering};
use std::sync::mpsc;
use std::sync::{Arc, Mutex};
use std::time::Duration;

pub const IDLE_SAMPLES: u32 = 12;

pub struct Slot {
    /// JSON text of the case the shard is about to hand to the library
    pub current: Mutex<Option<String>>,
    pub progress: AtomicU64,
}

impl Slot {
    pub fn new() -> Slot {
        Slot { current: Mutex::new(None), progress: AtomicU64::new(0) }
    }
    pub fn enter(&self, case: impl FnOnce() -> String) {
        *self.current.lock().unwrap_or_else(|p| p.into_inner()) = Some(case());
    }
    pub fn leave(&self) {
        self.progress.fetch_add(1, Ordering::Relaxed);
    }
}

pub struct Blocked {
    pub shard: usize,
    pub case: Option<String>,
    pub detail: String,
}

fn own_tid() -> i64 {
    unsafe { libc::syscall(libc::SYS_gettid) as i64 }
}

fn process_cpu_us() -> u64 {
    let mut ru: libc::rusage = unsafe { std::mem::zeroed() };
    unsafe { libc::getrusage(libc::RUSAGE_SELF, &mut ru) };
    let tv = |t: libc::timeval| t.tv_sec as u64 * 1_000_000 + t.tv_usec as u64;
    tv(ru.ru_utime) + tv(ru.ru_stime)
}

/// (threads other than `me`, how many of them are in state S)
fn thread_states(me: i64) -> (usize, usize) {
    let mut n = 0;
    let mut sleeping = 0;
    if let Ok(rd) = std::fs::read_dir("/proc/self/task") {
        for e in rd.flatten() {
            let tid: i64 = e.file_name().to_string_lossy().parse().unwrap_or(-1);
            if tid == me {
                continue;
            }
            if let Ok(s) = std::fs::read_to_string(e.path().join("stat")) {
                // "pid (comm) S ..." — comm may contain spaces/parens: take what follows the last ')'
                if let Some(p) = s.rfind(')') {
                    let st = s[p + 1..].trim_start().chars().next().unwrap_or('?');
                    n += 1;
                    if st == 'S' {
                        sleeping += 1;
                    }
                }
            }
        }
    }
    (n, sleeping)
}

struct IdleDetector {
    me: i64,
    last_progress: u64,
    cpu_at_window_start: u64,
    idle: u32,
}

impl IdleDetector {
    fn new() -> Self {
        IdleDetector { me: own_tid(), last_progress: u64::MAX, cpu_at_window_start: process_cpu_us(), idle: 0 }
    }
    /// one sample; true when the process has been idle and blocked for IDLE_SAMPLES samples
    fn sample(&mut self, progress: u64) -> bool {
        let (n, sleeping) = thread_states(self.me);
        let cpu = process_cpu_us();
        let quiet = progress == self.last_progress && n > 0 && n == sleeping;
        if quiet {
            self.idle += 1;
        } else {
            self.idle = 0;
            self.cpu_at_window_start = cpu;
        }
        self.last_progress = progress;
        // the monitor's own sampling costs a little CPU: allow 30 ms over the window
        if self.idle >= IDLE_SAMPLES {
            if cpu - self.cpu_at_window_start <= 30_000 {
                return true;
            }
            self.idle = 0;
            self.cpu_at_window_start = cpu;
        }
        false
    }
}

/// Like `rre_verif::shards`, but on detached threads under the deadlock watchdog. Returns the
/// shards that were found blocked (their Stats are lost; the threads are left behind and die with
/// the process).
pub fn shards_watched<F>(cli: &Cli, n: usize, st: &mut Stats, f: F) -> Vec<Blocked>
where
    F: Fn(usize, &mut Rng, &mut Stats, &Slot) + Send + Sync + 'static,
{
    let f = Arc::new(f);
    let slots: Vec<Arc<Slot>> = (0..n).map(|_| Arc::new(Slot::new())).collect();
    let (tx, rx) = mpsc::channel::<(usize, Stats)>();
    for i in 0..n {
        let f = Arc::clone(&f);
        let slot = Arc::clone(&slots[i]);
        let tx = tx.clone();
        let seed = cli.seed;
        std::thread::Builder::new()
            .name(format!("wshard{}", i))
            .stack_size(64 << 20)
            .spawn(move || {
                let mut rng = Rng::derive(seed, i as u64 + 1);
                let mut st = Stats::new();
                match pan::catch_frames(|| f(i, &mut rng, &mut st, &slot)) {
                    Ok(()) => {}
                    Err(p) => st.inconclusive(format!(
                        "harness shard {} panicked outside a monitored call: {} at {}:{} [{}]",
                        i, p.msg, p.file, p.line, p.frame
                    )),
                }
                let _ = tx.send((i, st));
            })
            .expect("spawn shard");
    }
    drop(tx);
    let mut done = vec![false; n];
    let mut det = IdleDetector::new();
    let mut blocked = Vec::new();
    // back-stop for the case that the idle criterion can never be met (e.g. /proc unreadable):
    // 20 minutes without any progress anywhere ends the wait as inconclusive, never as a verdict
    let mut stalled_samples = 0u32;
    let mut last_progress = u64::MAX;
    loop {
        if done.iter().all(|d| *d) {
            break;
        }
        match rx.recv_timeout(Duration::from_secs(1)) {
            Ok((i, s)) => {
                done[i] = true;
                st.merge(s);
            }
            Err(mpsc::RecvTimeoutError::Disconnected) => {
                for (i, d) in done.iter().enumerate() {
                    if !*d {
                        st.inconclusive(format!("shard {} ended without a result", i));
                    }
                }
                break;
            }
            Err(mpsc::RecvTimeoutError::Timeout) => {
                let progress: u64 = slots.iter().map(|s| s.progress.load(Ordering::Relaxed)).sum();
                if progress == last_progress {
                    stalled_samples += 1;
                } else {
                    stalled_samples = 0;
                    last_progress = progress;
                }
                if stalled_samples >= 1200 {
                    st.inconclusive("no shard made progress for 20 minutes although the process was not idle: undecided (machine overloaded or watchdog blind)");
                    break;
                }
                if det.sample(progress) {
                    for (i, d) in done.iter().enumerate() {
                        if !*d {
                            blocked.push(Blocked {
                                shard: i,
                                case: slots[i].current.lock().unwrap_or_else(|p| p.into_inner()).clone(),
                                detail: format!(
                                    "the call did not return: over {} consecutive one-second samples no shard made progress, every other thread of the process was sleeping (none runnable) and the process used no CPU time",
                                    IDLE_SAMPLES
                                ),
                            });
                        }
                    }
                    break;
                }
            }
        }
    }
    blocked
}

pub enum WatchErr {
    /// found blocked (detail)
    Blocked(String),
    /// the thread ended without a result (it panicked)
    Died,
}

/// Run one closure on a detached thread under the watchdog.
pub fn call_watched<T: Send + 'static>(f: impl FnOnce() -> T + Send + 'static) -> Result<T, WatchErr> {
    let (tx, rx) = mpsc::channel::<T>();
    std::thread::Builder::new()
        .name("wcall".into())
        .stack_size(64 << 20)
        .spawn(move || {
            let r = f();
            let _ = tx.send(r);
        })
        .expect("spawn");
    let mut det = IdleDetector::new();
    loop {
        match rx.recv_timeout(Duration::from_secs(1)) {
            Ok(v) => return Ok(v),
            Err(mpsc::RecvTimeoutError::Disconnected) => return Err(WatchErr::Died),
            Err(mpsc::RecvTimeoutError::Timeout) => {
                if det.sample(0) {
                    return Err(WatchErr::Blocked(format!(
                        "the call did not return: over {} consecutive one-second samples every other thread of the process was sleeping (none runnable) and the process used no CPU time",
                        IDLE_SAMPLES
                    )));
                }
            }
        }
    }
}
