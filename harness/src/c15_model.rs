//! C15 — shared by `harness/src/bin/c15.rs` (native exploration) and `miri/src/bin/c15.rs`
//! (Miri / ThreadSanitizer workloads): operation alphabet, the sequential reference model of the
//! statement (ordered list + version), the sequential step monitor, the concurrent history
//! recorder and a WGL-style linearizability checker.
//!
//! The including crate root must provide `Rng` (harness/src/rng.rs) and `sched`
//! (harness/src/sched.rs) as `super::Rng` / `super::sched`.
//!
//! Reading of the statement that the model encodes (never more):
//!  * `add_rule` of a name that is not stored succeeds, the rule is listed after every stored rule
//!    of greater-or-equal salience and before every rule of smaller salience; a duplicate name is
//!    rejected and NOTHING changes (listing, lookups, version);
//!  * `remove_rule` / `set_rule_enabled` of a stored name succeed (`Ok(true)`); of a missing name
//!    they return `Ok(false)`, the listing does not change and the version does not decrease;
//!  * `clear` empties the store;
//!  * the version strictly grows on every operation that succeeded (add `Ok`, remove `Ok(true)`,
//!    set_rule_enabled `Ok(true)`, clear). It is NOT required to grow by exactly one.

#![allow(dead_code)]

use super::sched;
use super::Rng;
use rust_rule_engine::{Condition, ConditionGroup, KnowledgeBase, Operator, Rule, Value};
use serde_json::{json, Value as Json};
use std::collections::HashSet;
use std::panic::{catch_unwind, AssertUnwindSafe};
use std::sync::atomic::{AtomicBool, AtomicU64, Ordering};
use std::sync::Arc;

/// The property's 4 rule names, followed by 60 more that only the "wide" sequential sub-check uses.
pub const NAMES: [&str; 64] = [
    "alpha", "beta", "gamma", "delta", "n04", "n05", "n06", "n07", "n08", "n09", "n10", "n11", "n12", "n13", "n14", "n15", "n16", "n17", "n18", "n19", "n20", "n21", "n22", "n23", "n24", "n25", "n26", "n27", "n28", "n29", "n30", "n31", "n32", "n33", "n34", "n35", "n36", "n37", "n38", "n39", "n40", "n41", "n42", "n43", "n44", "n45", "n46", "n47", "n48", "n49", "n50", "n51", "n52", "n53", "n54", "n55", "n56", "n57", "n58", "n59", "n60", "n61", "n62", "n63",
];
/// the first three are the exhaustive alphabet's; the extremes occur in sampled sequences only
pub const SALS: [i32; 5] = [-5, 0, 10, i32::MIN, i32::MAX];

/// salience index for a sampled add: mostly the three ordinary values, 1 in 6 an extreme
pub fn pick_sal(rng: &mut Rng) -> u8 {
    if rng.chance(1, 6) {
        3 + rng.below(2) as u8
    } else {
        rng.below(3) as u8
    }
}

#[derive(Clone, Copy, Debug, PartialEq, Eq, Hash)]
pub enum Op {
    Add { n: u8, s: u8 },
    Remove { n: u8 },
    Enable { n: u8, on: bool },
    Clear,
    Get { n: u8 },
    List,
    Names,
    Count,
    Version,
    Stats,
}

impl Op {
    pub fn is_mutator(&self) -> bool {
        matches!(self, Op::Add { .. } | Op::Remove { .. } | Op::Enable { .. } | Op::Clear)
    }
    pub fn text(&self) -> String {
        match *self {
            Op::Add { n, s } => format!("add:{}:{}", NAMES[n as usize], SALS[s as usize]),
            Op::Remove { n } => format!("remove:{}", NAMES[n as usize]),
            Op::Enable { n, on } => format!("enable:{}:{}", NAMES[n as usize], on),
            Op::Clear => "clear".into(),
            Op::Get { n } => format!("get:{}", NAMES[n as usize]),
            Op::List => "list".into(),
            Op::Names => "names".into(),
            Op::Count => "count".into(),
            Op::Version => "version".into(),
            Op::Stats => "stats".into(),
        }
    }
    pub fn parse(t: &str) -> Option<Op> {
        let p: Vec<&str> = t.split(':').collect();
        let name = |s: &str| NAMES.iter().position(|x| *x == s).map(|i| i as u8);
        Some(match (p[0], p.len()) {
            ("add", 3) => Op::Add {
                n: name(p[1])?,
                s: SALS.iter().position(|x| x.to_string() == p[2])? as u8,
            },
            ("remove", 2) => Op::Remove { n: name(p[1])? },
            ("enable", 3) => Op::Enable { n: name(p[1])?, on: p[2] == "true" },
            ("clear", 1) => Op::Clear,
            ("get", 2) => Op::Get { n: name(p[1])? },
            ("list", 1) => Op::List,
            ("names", 1) => Op::Names,
            ("count", 1) => Op::Count,
            ("version", 1) => Op::Version,
            ("stats", 1) => Op::Stats,
            _ => return None,
        })
    }
}

/// The 25 mutating operations of the sequential alphabet (4 names x 3 saliences adds, 4 removes,
/// 8 enable/disable, clear).
pub fn mutators() -> Vec<Op> {
    let mut v = Vec::new();
    for n in 0..4u8 {
        for s in 0..3u8 {
            v.push(Op::Add { n, s });
        }
    }
    for n in 0..4u8 {
        v.push(Op::Remove { n });
    }
    for n in 0..4u8 {
        v.push(Op::Enable { n, on: true });
        v.push(Op::Enable { n, on: false });
    }
    v.push(Op::Clear);
    v
}

/// What a lookup / listing shows of one rule. `tag` is the description the harness stamped on the
/// rule when it added it (unique per add), so "the rule most recently added under that name" is
/// observable.
#[derive(Clone, Debug, PartialEq, Eq, Hash)]
pub struct RuleObs {
    pub name: String,
    pub sal: i32,
    pub enabled: bool,
    pub tag: u32,
}

fn obs_of(r: &Rule) -> RuleObs {
    RuleObs {
        name: r.name.clone(),
        sal: r.salience,
        enabled: r.enabled,
        tag: r
            .description
            .as_deref()
            .and_then(|d| d.strip_prefix('t'))
            .and_then(|d| d.parse().ok())
            .unwrap_or(u32::MAX),
    }
}

#[derive(Clone, Debug, PartialEq, Eq, Hash)]
pub enum Res {
    AddOk,
    AddErr,
    Bool(bool),
    Unit,
    Rule(Option<RuleObs>),
    List(Vec<RuleObs>),
    /// sorted
    Names(Vec<String>),
    Count(usize),
    Version(u64),
    Stats { total: usize, enabled: usize, disabled: usize, dist: Vec<(i32, usize)>, version: u64 },
    Err(String),
    Panic(String),
}

fn robs_json(r: &RuleObs) -> Json {
    json!(format!("{}/{}/{}/t{}", r.name, r.sal, if r.enabled { "on" } else { "off" }, r.tag))
}
fn robs_parse(s: &str) -> Option<RuleObs> {
    let p: Vec<&str> = s.split('/').collect();
    if p.len() != 4 {
        return None;
    }
    Some(RuleObs {
        name: p[0].to_string(),
        sal: p[1].parse().ok()?,
        enabled: p[2] == "on",
        tag: p[3].strip_prefix('t')?.parse().ok()?,
    })
}

impl Res {
    pub fn to_json(&self) -> Json {
        match self {
            Res::AddOk => json!("ok"),
            Res::AddErr => json!("err-duplicate"),
            Res::Bool(b) => json!(b),
            Res::Unit => json!("done"),
            Res::Rule(r) => match r {
                Some(r) => json!({ "rule": robs_json(r) }),
                None => json!({ "rule": null }),
            },
            Res::List(l) => json!({ "list": l.iter().map(robs_json).collect::<Vec<_>>() }),
            Res::Names(n) => json!({ "names": n }),
            Res::Count(c) => json!({ "count": c }),
            Res::Version(v) => json!({ "version": v }),
            Res::Stats { total, enabled, disabled, dist, version } => json!({
                "stats": { "total": total, "enabled": enabled, "disabled": disabled,
                           "dist": dist.iter().map(|(s, c)| json!([s, c])).collect::<Vec<_>>(), "version": version }
            }),
            Res::Err(e) => json!({ "error": e }),
            Res::Panic(e) => json!({ "panic": e }),
        }
    }
    pub fn from_json(j: &Json) -> Option<Res> {
        Some(match j {
            Json::String(s) if s == "ok" => Res::AddOk,
            Json::String(s) if s == "err-duplicate" => Res::AddErr,
            Json::String(s) if s == "done" => Res::Unit,
            Json::Bool(b) => Res::Bool(*b),
            Json::Object(o) => {
                if let Some(r) = o.get("rule") {
                    Res::Rule(match r {
                        Json::Null => None,
                        Json::String(s) => Some(robs_parse(s)?),
                        _ => return None,
                    })
                } else if let Some(l) = o.get("list") {
                    Res::List(l.as_array()?.iter().map(|x| robs_parse(x.as_str()?)).collect::<Option<Vec<_>>>()?)
                } else if let Some(n) = o.get("names") {
                    Res::Names(n.as_array()?.iter().map(|x| x.as_str().map(|s| s.to_string())).collect::<Option<Vec<_>>>()?)
                } else if let Some(c) = o.get("count") {
                    Res::Count(c.as_u64()? as usize)
                } else if let Some(v) = o.get("version") {
                    Res::Version(v.as_u64()?)
                } else if let Some(s) = o.get("stats") {
                    Res::Stats {
                        total: s["total"].as_u64()? as usize,
                        enabled: s["enabled"].as_u64()? as usize,
                        disabled: s["disabled"].as_u64()? as usize,
                        dist: s["dist"]
                            .as_array()?
                            .iter()
                            .map(|p| Some((p[0].as_i64()? as i32, p[1].as_u64()? as usize)))
                            .collect::<Option<Vec<_>>>()?,
                        version: s["version"].as_u64()?,
                    }
                } else if let Some(e) = o.get("error") {
                    Res::Err(e.as_str()?.to_string())
                } else if let Some(e) = o.get("panic") {
                    Res::Panic(e.as_str()?.to_string())
                } else {
                    return None;
                }
            }
            _ => return None,
        })
    }
}

pub fn make_rule(n: u8, s: u8, tag: u32) -> Rule {
    Rule::new(
        NAMES[n as usize].to_string(),
        ConditionGroup::single(Condition::new("x".to_string(), Operator::Equal, Value::Integer(1))),
        vec![],
    )
    .with_salience(SALS[s as usize])
    .with_description(format!("t{}", tag))
}

fn panic_class(p: Box<dyn std::any::Any + Send>) -> String {
    let m = if let Some(s) = p.downcast_ref::<&str>() {
        s.to_string()
    } else if let Some(s) = p.downcast_ref::<String>() {
        s.clone()
    } else {
        "non-string payload".to_string()
    };
    for (needle, class) in [
        ("index out of bounds", "index-out-of-bounds"),
        ("removal index", "index-out-of-bounds"),
        ("out of range", "index-out-of-bounds"),
        ("PoisonError", "poisoned-lock"),
        ("unwrap()` on a `None`", "unwrap-none"),
    ] {
        if m.contains(needle) {
            return class.to_string();
        }
    }
    m.chars().take(40).map(|c| if c.is_ascii_alphanumeric() { c } else { '-' }).collect()
}

/// Execute one operation against the real knowledge base.
pub fn exec(kb: &KnowledgeBase, op: Op, tag: u32) -> Res {
    let r = catch_unwind(AssertUnwindSafe(|| match op {
        Op::Add { n, s } => match kb.add_rule(make_rule(n, s, tag)) {
            Ok(()) => Res::AddOk,
            Err(_) => Res::AddErr,
        },
        Op::Remove { n } => match kb.remove_rule(NAMES[n as usize]) {
            Ok(b) => Res::Bool(b),
            Err(e) => Res::Err(format!("{:?}", e)),
        },
        Op::Enable { n, on } => match kb.set_rule_enabled(NAMES[n as usize], on) {
            Ok(b) => Res::Bool(b),
            Err(e) => Res::Err(format!("{:?}", e)),
        },
        Op::Clear => {
            kb.clear();
            Res::Unit
        }
        Op::Get { n } => Res::Rule(kb.get_rule(NAMES[n as usize]).as_ref().map(obs_of)),
        Op::List => Res::List(kb.get_rules().iter().map(obs_of).collect()),
        Op::Names => {
            let mut v = kb.get_rule_names();
            v.sort();
            Res::Names(v)
        }
        Op::Count => Res::Count(kb.rule_count()),
        Op::Version => Res::Version(kb.version()),
        Op::Stats => {
            let s = kb.get_statistics();
            let mut dist: Vec<(i32, usize)> = s.priority_distribution.iter().map(|(k, v)| (*k, *v)).collect();
            dist.sort();
            Res::Stats {
                total: s.total_rules,
                enabled: s.enabled_rules,
                disabled: s.disabled_rules,
                dist,
                version: s.version,
            }
        }
    }));
    match r {
        Ok(r) => r,
        Err(p) => Res::Panic(panic_class(p)),
    }
}

// ------------------------------------------------------------------------------------------------
// The sequential model of the statement
// ------------------------------------------------------------------------------------------------

#[derive(Clone, Debug, PartialEq, Eq, Hash)]
pub struct MRule {
    pub n: u8,
    pub s: u8,
    pub en: bool,
    pub tag: u32,
}

impl MRule {
    pub fn obs(&self) -> RuleObs {
        RuleObs {
            name: NAMES[self.n as usize].to_string(),
            sal: SALS[self.s as usize],
            enabled: self.en,
            tag: self.tag,
        }
    }
}

/// Ordered list (listing order) + what the statement fixes about the version: the last version
/// value seen (`vlast`), how many successful changes happened since (`growth`: the next version
/// read must be >= vlast + growth) and whether an operation happened since that is allowed, but
/// not required, to move the version (`weak`: remove / enable of a missing name).
#[derive(Clone, Debug, PartialEq, Eq, Hash)]
pub struct Model {
    pub rules: Vec<MRule>,
    pub vlast: u64,
    pub growth: u32,
    pub weak: bool,
}

impl Model {
    pub fn new(v0: u64) -> Model {
        Model { rules: Vec::new(), vlast: v0, growth: 0, weak: false }
    }
    pub fn find(&self, n: u8) -> Option<&MRule> {
        self.rules.iter().find(|r| r.n == n)
    }
    pub fn listing(&self) -> Vec<RuleObs> {
        self.rules.iter().map(|r| r.obs()).collect()
    }
    pub fn names(&self) -> Vec<String> {
        let mut v: Vec<String> = self.rules.iter().map(|r| NAMES[r.n as usize].to_string()).collect();
        v.sort();
        v
    }
    pub fn dist(&self) -> Vec<(i32, usize)> {
        let mut d: Vec<(i32, usize)> = Vec::new();
        for r in &self.rules {
            let s = SALS[r.s as usize];
            match d.iter_mut().find(|(k, _)| *k == s) {
                Some(e) => e.1 += 1,
                None => d.push((s, 1)),
            }
        }
        d.sort();
        d
    }
    fn version_ok(&self, x: u64) -> bool {
        x >= self.vlast + self.growth as u64 && (self.growth > 0 || self.weak || x == self.vlast)
    }
    pub fn version_seen(&mut self, x: u64) {
        self.vlast = x;
        self.growth = 0;
        self.weak = false;
    }
    /// Apply `op` (whose add would carry `tag`); returns whether `observed` is a result the
    /// statement allows in this state. The state is updated either way.
    pub fn apply(&mut self, op: Op, tag: u32, observed: &Res) -> bool {
        match op {
            Op::Add { n, s } => {
                if self.find(n).is_some() {
                    *observed == Res::AddErr
                } else {
                    let sal = SALS[s as usize];
                    let pos = self
                        .rules
                        .iter()
                        .position(|r| SALS[r.s as usize] < sal)
                        .unwrap_or(self.rules.len());
                    self.rules.insert(pos, MRule { n, s, en: true, tag });
                    self.growth += 1;
                    *observed == Res::AddOk
                }
            }
            Op::Remove { n } => {
                if let Some(p) = self.rules.iter().position(|r| r.n == n) {
                    self.rules.remove(p);
                    self.growth += 1;
                    *observed == Res::Bool(true)
                } else {
                    self.weak = true;
                    *observed == Res::Bool(false)
                }
            }
            Op::Enable { n, on } => {
                if let Some(r) = self.rules.iter_mut().find(|r| r.n == n) {
                    r.en = on;
                    self.growth += 1;
                    *observed == Res::Bool(true)
                } else {
                    self.weak = true;
                    *observed == Res::Bool(false)
                }
            }
            Op::Clear => {
                self.rules.clear();
                self.growth += 1;
                *observed == Res::Unit
            }
            Op::Get { n } => *observed == Res::Rule(self.find(n).map(|r| r.obs())),
            Op::List => *observed == Res::List(self.listing()),
            Op::Names => *observed == Res::Names(self.names()),
            Op::Count => *observed == Res::Count(self.rules.len()),
            Op::Version => match observed {
                Res::Version(x) => {
                    let ok = self.version_ok(*x);
                    self.version_seen(*x);
                    ok
                }
                _ => false,
            },
            Op::Stats => match observed {
                Res::Stats { total, enabled, disabled, dist, version } => {
                    let en = self.rules.iter().filter(|r| r.en).count();
                    let ok = *total == self.rules.len()
                        && *enabled == en
                        && *disabled == self.rules.len() - en
                        && *dist == self.dist()
                        && self.version_ok(*version);
                    self.version_seen(*version);
                    ok
                }
                _ => false,
            },
        }
    }
}

// ------------------------------------------------------------------------------------------------
// Sequential step monitor
// ------------------------------------------------------------------------------------------------

pub type Fail = (String, String, String); // (clause, cause, detail)

fn has_dup_names(l: &[RuleObs]) -> bool {
    let mut seen = HashSet::new();
    l.iter().any(|r| !seen.insert(r.name.clone()))
}
fn salience_sorted(l: &[RuleObs]) -> bool {
    l.windows(2).all(|w| w[0].sal >= w[1].sal)
}

fn listing_cause(got: &[RuleObs], want: &[RuleObs]) -> &'static str {
    let mut a: Vec<&RuleObs> = got.iter().collect();
    let mut b: Vec<&RuleObs> = want.iter().collect();
    let key = |r: &&RuleObs| (r.name.clone(), r.tag, r.sal, r.enabled);
    a.sort_by_key(key);
    b.sort_by_key(key);
    if a == b {
        if salience_sorted(got) {
            "insertion-order-among-equal-salience"
        } else {
            "not-in-descending-salience"
        }
    } else if has_dup_names(got) {
        "a-name-listed-twice"
    } else if got.len() < want.len() {
        "stored-rule-not-listed"
    } else if got.len() > want.len() {
        "removed-rule-still-listed"
    } else {
        "listed-rule-differs-from-stored-rule"
    }
}

fn lookup_cause(queried: &str, got: &Option<RuleObs>, want: &Option<RuleObs>) -> &'static str {
    match (got, want) {
        (None, Some(_)) => "stored-rule-not-found",
        (Some(g), None) => {
            if g.name != queried {
                "returns-rule-of-another-name"
            } else {
                "removed-rule-still-found"
            }
        }
        (Some(g), Some(w)) => {
            if g.name != queried {
                "returns-rule-of-another-name"
            } else if g.tag != w.tag {
                "returns-older-rule-of-that-name"
            } else {
                "attributes-differ"
            }
        }
        (None, None) => "none",
    }
}

/// Compare every read view of the knowledge base with the model.
pub fn observe_all(kb: &KnowledgeBase, m: &Model, n_names: usize, reads: &mut u64) -> Option<Fail> {
    let r = catch_unwind(AssertUnwindSafe(|| {
        let mut reads_local = 0u64;
        let want = m.listing();
        // lookups by name, all four names
        for (i, name) in NAMES.iter().take(n_names).enumerate() {
            let got = kb.get_rule(name).as_ref().map(obs_of);
            let w = m.find(i as u8).map(|r| r.obs());
            reads_local += 1;
            if got != w {
                return (reads_local, Some((
                    "lookup".to_string(),
                    lookup_cause(name, &got, &w).to_string(),
                    format!("get_rule({:?}) = {:?}, the model of the statement has {:?}", name, got, w),
                )));
            }
        }
        // listing
        let got: Vec<RuleObs> = kb.get_rules().iter().map(obs_of).collect();
        reads_local += 1;
        if got != want {
            return (reads_local, Some((
                "listing".to_string(),
                listing_cause(&got, &want).to_string(),
                format!("get_rules() = {:?}, expected {:?}", got, want),
            )));
        }
        // the other views must agree with the listing
        let mut names = kb.get_rule_names();
        names.sort();
        reads_local += 1;
        if names != m.names() {
            return (reads_local, Some((
                "views-agree".to_string(),
                "get_rule_names-differs-from-listing".to_string(),
                format!("get_rule_names() = {:?}, listing has {:?}", names, m.names()),
            )));
        }
        let c = kb.rule_count();
        reads_local += 1;
        if c != want.len() {
            return (reads_local, Some((
                "views-agree".to_string(),
                "rule_count-differs-from-listing".to_string(),
                format!("rule_count() = {}, listing has {}", c, want.len()),
            )));
        }
        let idx = kb.get_rules_by_salience();
        let by_idx: Vec<Option<RuleObs>> = idx.iter().map(|i| kb.get_rule_by_index(*i).as_ref().map(obs_of)).collect();
        reads_local += 1 + idx.len() as u64;
        let want_opt: Vec<Option<RuleObs>> = want.iter().cloned().map(Some).collect();
        if by_idx != want_opt {
            let flat: Vec<RuleObs> = by_idx.iter().flatten().cloned().collect();
            let cause = if flat.len() != by_idx.len() {
                "index-without-rule"
            } else {
                listing_cause(&flat, &want)
            };
            return (reads_local, Some((
                "views-agree".to_string(),
                format!("by-salience-index:{}", cause),
                format!("get_rules_by_salience()+get_rule_by_index() = {:?}, expected {:?}", by_idx, want),
            )));
        }
        let s = kb.get_statistics();
        reads_local += 1;
        let mut dist: Vec<(i32, usize)> = s.priority_distribution.iter().map(|(k, v)| (*k, *v)).collect();
        dist.sort();
        let en = m.rules.iter().filter(|r| r.en).count();
        if s.total_rules != want.len() || s.enabled_rules != en || s.disabled_rules != want.len() - en || dist != m.dist() {
            return (reads_local, Some((
                "views-agree".to_string(),
                "get_statistics-differs-from-listing".to_string(),
                format!("get_statistics() = total {} enabled {} disabled {} dist {:?}; listing {:?}", s.total_rules, s.enabled_rules, s.disabled_rules, dist, want),
            )));
        }
        let v = kb.version();
        if s.version != v {
            return (reads_local, Some((
                "views-agree".to_string(),
                "get_statistics-version-differs-from-version".to_string(),
                format!("get_statistics().version = {}, version() = {}", s.version, v),
            )));
        }
        (reads_local, None)
    }));
    match r {
        Ok((n, f)) => {
            *reads += n;
            f
        }
        Err(p) => Some(("operation-panicked".to_string(), panic_class(p), "a read operation panicked".to_string())),
    }
}

#[derive(Default, Clone, Debug)]
pub struct SeqObs {
    pub ops: u64,
    pub reads: u64,
    pub ok_changes: u64,
    pub rejected_duplicates: u64,
    pub missing_name_ops: u64,
    pub removals_with_rules_left: u64,
    pub max_rules: usize,
    pub salience_ties: u64,
    pub version_moved_on_missing_name_op: u64,
}

/// Run one sequence of mutating operations under the step monitor. With `full_every_step` every
/// view is compared with the model after every operation, otherwise return value and version are
/// checked at every step and every view after the last one (used by the exhaustive enumeration,
/// where every prefix is itself an enumerated sequence).
pub fn run_seq(ops: &[Op], full_every_step: bool) -> (Option<Fail>, SeqObs) {
    run_seq_names(ops, full_every_step, 4)
}

/// `n_names`: how many of NAMES the lookups-by-name sweep covers (4 = the property's alphabet).
/// One knowledge base with its model (the body of the sequential step monitor).
pub struct Inst {
    pub kb: KnowledgeBase,
    pub m: Model,
    v_before: u64,
}

impl Inst {
    pub fn new(kb: KnowledgeBase) -> Inst {
        let v = kb.version();
        Inst { kb, m: Model::new(v), v_before: v }
    }
    /// Execute step `i` (of `n_ops`) and compare; `full` = compare every view afterwards.
    #[allow(clippy::too_many_arguments)]
    pub fn step(&mut self, i: usize, n_ops: usize, op: Op, tag: u32, full_every_step: bool, n_names: usize, o: &mut SeqObs) -> Option<Fail> {
        let was_dup = matches!(op, Op::Add { n, .. } if self.m.find(n).is_some());
        let missing = matches!(op, Op::Remove { n } | Op::Enable { n, .. } if self.m.find(n).is_none());
        let res = exec(&self.kb, op, tag);
        o.ops += 1;
        if let Res::Panic(c) = &res {
            return Some(("operation-panicked".into(), c.clone(), format!("step {} {} panicked", i, op.text())));
        }
        let ok = self.m.apply(op, tag, &res);
        if !ok {
            let (clause, cause) = if was_dup {
                ("duplicate-rejected-without-effect", "duplicate-accepted")
            } else {
                match (op, &res) {
                    (Op::Add { .. }, _) => ("return-value", "add-of-new-name-rejected"),
                    (Op::Remove { .. }, Res::Bool(true)) => ("return-value", "remove-of-missing-name-reports-true"),
                    (Op::Remove { .. }, _) => ("return-value", "remove-of-stored-name-does-not-report-true"),
                    (Op::Enable { .. }, Res::Bool(true)) => ("return-value", "enable-of-missing-name-reports-true"),
                    (Op::Enable { .. }, _) => ("return-value", "enable-of-stored-name-does-not-report-true"),
                    _ => ("return-value", "unexpected-result"),
                }
            };
            return Some((clause.into(), cause.into(), format!("step {} {} returned {}", i, op.text(), res.to_json())));
        }
        // version
        let v_after = match catch_unwind(AssertUnwindSafe(|| self.kb.version())) {
            Ok(v) => v,
            Err(p) => return Some(("operation-panicked".into(), panic_class(p), "version() panicked".into())),
        };
        o.reads += 1;
        let succeeded = self.m.growth > 0;
        if was_dup {
            o.rejected_duplicates += 1;
            if v_after != self.v_before {
                return Some((
                    "duplicate-rejected-without-effect".into(),
                    "version-changed".into(),
                    format!("step {} {} was rejected but the version went {} -> {}", i, op.text(), self.v_before, v_after),
                ));
            }
        } else if succeeded {
            o.ok_changes += 1;
            if v_after <= self.v_before {
                return Some((
                    "version".into(),
                    if v_after == self.v_before { "unchanged-after-successful-change" } else { "decreased" }.into(),
                    format!("step {} {} succeeded but the version went {} -> {}", i, op.text(), self.v_before, v_after),
                ));
            }
        } else if missing {
            o.missing_name_ops += 1;
            if v_after < self.v_before {
                return Some((
                    "version".into(),
                    "decreased".into(),
                    format!("step {} {} (missing name): version went {} -> {}", i, op.text(), self.v_before, v_after),
                ));
            }
            if v_after != self.v_before {
                o.version_moved_on_missing_name_op += 1;
            }
        }
        self.m.version_seen(v_after);
        self.v_before = v_after;
        if matches!(op, Op::Remove { .. }) && succeeded && !self.m.rules.is_empty() {
            o.removals_with_rules_left += 1;
        }
        o.max_rules = o.max_rules.max(self.m.rules.len());
        if self.m.rules.windows(2).any(|w| w[0].s == w[1].s) {
            o.salience_ties += 1;
        }
        if full_every_step || i + 1 == n_ops {
            if let Some((clause, cause, detail)) = observe_all(&self.kb, &self.m, n_names, &mut o.reads) {
                let (clause, cause) = if was_dup && clause != "operation-panicked" {
                    ("duplicate-rejected-without-effect".to_string(), format!("state-changed:{}:{}", clause, cause))
                } else {
                    (clause, cause)
                };
                return Some((clause, cause, format!("after step {} {}: {}", i, op.text(), detail)));
            }
        }
        None
    }
}

pub fn run_seq_names(ops: &[Op], full_every_step: bool, n_names: usize) -> (Option<Fail>, SeqObs) {
    let mut inst = Inst::new(KnowledgeBase::new("c15"));
    let mut o = SeqObs::default();
    for (i, op) in ops.iter().enumerate() {
        if let Some(f) = inst.step(i, ops.len(), *op, i as u32 + 1, full_every_step, n_names, &mut o) {
            return (Some(f), o);
        }
    }
    (None, o)
}

/// A step of a history over several knowledge bases: an operation on instance `k`, or
/// "instance k is cloned" (the clone becomes the next instance).
#[derive(Clone, Copy, Debug, PartialEq, Eq, Hash)]
pub enum IStep {
    Do(u8, Op),
    Clone(u8),
}

impl IStep {
    pub fn text(&self) -> String {
        match self {
            IStep::Do(k, op) => format!("kb{}:{}", k, op.text()),
            IStep::Clone(k) => format!("kb{}:clone", k),
        }
    }
    pub fn parse(t: &str) -> Option<IStep> {
        let (k, rest) = t.split_once(':')?;
        let k: u8 = k.strip_prefix("kb")?.parse().ok()?;
        if rest == "clone" {
            Some(IStep::Clone(k))
        } else {
            Some(IStep::Do(k, Op::parse(rest)?))
        }
    }
}

/// Histories over a knowledge base AND its clones. Reading: `clone()` gives another knowledge
/// base that holds the rules the original lists at that moment (same order, same rules); from
/// then on each of the two follows its own operations only. After every step every view of EVERY
/// instance is compared with that instance's model. The clone's version is taken as observed.
pub fn run_instances(steps: &[IStep], n_names: usize) -> (Option<Fail>, SeqObs) {
    let mut insts: Vec<Inst> = vec![Inst::new(KnowledgeBase::new("c15"))];
    let mut o = SeqObs::default();
    for (i, st) in steps.iter().enumerate() {
        match *st {
            IStep::Clone(k) => {
                let Some(src) = insts.get(k as usize) else { continue };
                let kb2 = match catch_unwind(AssertUnwindSafe(|| src.kb.clone())) {
                    Ok(k) => k,
                    Err(p) => return (Some(("operation-panicked".into(), panic_class(p), format!("step {} clone panicked", i))), o),
                };
                let mut ni = Inst::new(kb2);
                ni.m.rules = src.m.rules.clone();
                insts.push(ni);
            }
            IStep::Do(k, op) => {
                let Some(inst) = insts.get_mut(k as usize) else { continue };
                if let Some((cl, ca, de)) = inst.step(i, steps.len(), op, i as u32 + 1, false, n_names, &mut o) {
                    return (Some((cl, ca, format!("kb{}: {}", k, de))), o);
                }
            }
        }
        // every instance, every view
        let acted = match *st {
            IStep::Do(k, _) => k as usize,
            IStep::Clone(_) => insts.len() - 1,
        };
        for (k, inst) in insts.iter().enumerate() {
            if let Some((clause, cause, detail)) = observe_all(&inst.kb, &inst.m, n_names, &mut o.reads) {
                let (clause, cause) = if k != acted && clause != "operation-panicked" {
                    ("instances-independent".to_string(), format!("changed-by-an-operation-on-another-instance:{}:{}", clause, cause))
                } else if matches!(st, IStep::Clone(_)) && clause != "operation-panicked" {
                    ("clone-holds-the-listed-rules".to_string(), format!("{}:{}", clause, cause))
                } else {
                    (clause, cause)
                };
                return (Some((clause, cause, format!("after step {} {}: kb{}: {}", i, st.text(), k, detail))), o);
            }
        }
    }
    (None, o)
}

// ------------------------------------------------------------------------------------------------
// Concurrent histories
// ------------------------------------------------------------------------------------------------

#[derive(Clone, Debug, PartialEq)]
pub struct Program {
    /// executed one after another before the threads start
    pub setup: Vec<Op>,
    pub threads: Vec<Vec<Op>>,
}

impl Program {
    pub fn to_json(&self) -> Json {
        json!({
            "setup": self.setup.iter().map(|o| o.text()).collect::<Vec<_>>(),
            "threads": self.threads.iter().map(|t| t.iter().map(|o| o.text()).collect::<Vec<_>>()).collect::<Vec<_>>(),
        })
    }
    pub fn from_json(j: &Json) -> Option<Program> {
        let ops = |a: &Json| -> Option<Vec<Op>> { a.as_array()?.iter().map(|x| Op::parse(x.as_str()?)).collect() };
        Some(Program {
            setup: ops(&j["setup"])?,
            threads: j["threads"].as_array()?.iter().map(ops).collect::<Option<Vec<_>>>()?,
        })
    }
    pub fn n_ops(&self) -> usize {
        self.setup.len() + self.threads.iter().map(|t| t.len()).sum::<usize>()
    }
}

/// Random program: `threads` x `ops_per_thread` operations over 2-3 of the 4 names (few names so
/// that operations collide), all operation kinds, after 0-2 set-up adds.
pub fn gen_program(rng: &mut Rng, threads: usize, ops_per_thread: usize) -> Program {
    let n_names = 2 + rng.below(2);
    let mut names: Vec<u8> = vec![0, 1, 2, 3];
    rng.shuffle(&mut names);
    names.truncate(n_names);
    let gen_op = |rng: &mut Rng| -> Op {
        let n = *rng.pick(&names);
        match rng.below(100) {
            0..=29 => Op::Add { n, s: pick_sal(rng) },
            30..=44 => Op::Remove { n },
            45..=54 => Op::Enable { n, on: rng.bool() },
            55..=58 => Op::Clear,
            59..=73 => Op::Get { n },
            74..=83 => Op::List,
            84..=89 => Op::Version,
            90..=93 => Op::Names,
            94..=95 => Op::Count,
            _ => Op::Stats,
        }
    };
    let setup: Vec<Op> = (0..rng.below(3))
        .map(|_| Op::Add { n: *rng.pick(&names), s: pick_sal(rng) })
        .collect();
    let threads = (0..threads).map(|_| (0..ops_per_thread).map(|_| gen_op(rng)).collect()).collect();
    Program { setup, threads }
}

#[derive(Clone, Debug, PartialEq)]
pub struct Event {
    /// 0 = set-up phase, 1.. = worker thread
    pub thread: u8,
    pub idx: u8,
    pub op: Op,
    pub tag: u32,
    pub call: u64,
    pub ret: u64,
    pub res: Res,
}

#[derive(Clone, Debug, PartialEq)]
pub struct History {
    pub v0: u64,
    pub events: Vec<Event>,
}

impl History {
    pub fn to_json(&self) -> Json {
        json!({
            "initial_version": self.v0,
            "events": self.events.iter().map(|e| json!({
                "thread": e.thread, "idx": e.idx, "op": e.op.text(), "tag": e.tag,
                "call": e.call, "ret": e.ret, "result": e.res.to_json(),
            })).collect::<Vec<_>>(),
        })
    }
    pub fn from_json(j: &Json) -> Option<History> {
        let mut events = Vec::new();
        for e in j["events"].as_array()? {
            events.push(Event {
                thread: e["thread"].as_u64()? as u8,
                idx: e["idx"].as_u64()? as u8,
                op: Op::parse(e["op"].as_str()?)?,
                tag: e["tag"].as_u64()? as u32,
                call: e["call"].as_u64()?,
                ret: e["ret"].as_u64()?,
                res: Res::from_json(&e["result"])?,
            });
        }
        Some(History { v0: j["initial_version"].as_u64()?, events })
    }
    /// Number of pairs of operations of different threads that overlap in real time.
    pub fn overlapping_pairs(&self) -> usize {
        let mut n = 0;
        for (i, a) in self.events.iter().enumerate() {
            for b in &self.events[i + 1..] {
                if a.thread != b.thread && a.call < b.ret && b.call < a.ret {
                    n += 1;
                }
            }
        }
        n
    }
    /// Structural hash of the real-time partial order (who precedes whom) of the history.
    pub fn partial_order_hash(&self) -> u64 {
        let mut h: u64 = 0xcbf2_9ce4_8422_2325;
        let mut mix = |x: u64| {
            h ^= x;
            h = h.wrapping_mul(0x0000_0100_0000_01b3);
        };
        for a in &self.events {
            for b in &self.events {
                if a.thread != b.thread {
                    mix(((a.thread as u64) << 24) | ((a.idx as u64) << 16) | ((b.thread as u64) << 8) | b.idx as u64);
                    mix(if a.ret < b.call { 1 } else if b.ret < a.call { 2 } else { 3 });
                }
            }
        }
        h
    }
}

/// Run the program on one fresh `Arc<KnowledgeBase>`; call and return are stamped on the client
/// side from one atomic logical clock. `perturb_us`: harness-side seeded yield/sleep before every
/// call (on top of whatever callback is installed on the library's schedule points).
pub fn run_program(p: &Program, perturb_us: Option<u64>) -> History {
    let kb = Arc::new(KnowledgeBase::new("c15"));
    let clock = Arc::new(AtomicU64::new(1));
    let v0 = kb.version();
    let mut events: Vec<Event> = Vec::new();
    for (i, op) in p.setup.iter().enumerate() {
        let tag = 1 + i as u32;
        let call = clock.fetch_add(1, Ordering::SeqCst);
        let res = exec(&kb, *op, tag);
        let ret = clock.fetch_add(1, Ordering::SeqCst);
        events.push(Event { thread: 0, idx: i as u8, op: *op, tag, call, ret, res });
    }
    let go = Arc::new(AtomicBool::new(false));
    let mut handles = Vec::new();
    for (t, ops) in p.threads.iter().enumerate() {
        let kb = Arc::clone(&kb);
        let clock = Arc::clone(&clock);
        let go = Arc::clone(&go);
        let ops = ops.clone();
        handles.push(std::thread::spawn(move || {
            while !go.load(Ordering::Acquire) {
                std::thread::yield_now();
            }
            let mut evs = Vec::with_capacity(ops.len());
            for (i, op) in ops.iter().enumerate() {
                if let Some(us) = perturb_us {
                    sched::perturb(us);
                }
                let tag = 100 * (t as u32 + 1) + i as u32;
                let call = clock.fetch_add(1, Ordering::SeqCst);
                let res = exec(&kb, *op, tag);
                let ret = clock.fetch_add(1, Ordering::SeqCst);
                evs.push(Event { thread: t as u8 + 1, idx: i as u8, op: *op, tag, call, ret, res });
            }
            evs
        }));
    }
    go.store(true, Ordering::Release);
    for h in handles {
        if let Ok(evs) = h.join() {
            events.extend(evs);
        }
    }
    History { v0, events }
}

pub enum Lin {
    /// a witness linearisation (indices into `events`)
    Yes(Vec<usize>),
    /// no linearisation exists; the longest legal prefix found
    No(Vec<usize>),
    /// step cap reached before a decision
    Capped,
}

/// WGL-style search: depth-first over the operations that are minimal in the real-time order among
/// those not yet linearised, applying each to the sequential model and pruning when the observed
/// result is not allowed; memoised on (linearised set, model state).
pub fn linearizable(h: &History, cap: u64, steps_out: &mut u64) -> Lin {
    let n = h.events.len();
    assert!(n <= 32);
    let full: u32 = if n == 32 { u32::MAX } else { (1u32 << n) - 1 };
    let mut seen: HashSet<(u32, Model)> = HashSet::new();
    let mut best: Vec<usize> = Vec::new();
    let mut order: Vec<usize> = Vec::new();
    let mut steps = 0u64;
    // explicit stack of (mask, model, next candidate index to try)
    struct Frame {
        mask: u32,
        model: Model,
        next: usize,
    }
    let mut stack = vec![Frame { mask: 0, model: Model::new(h.v0), next: 0 }];
    while let Some(f) = stack.last_mut() {
        if f.mask == full {
            *steps_out += steps;
            return Lin::Yes(order);
        }
        let mask = f.mask;
        let min_ret = (0..n).filter(|j| mask & (1 << j) == 0).map(|j| h.events[j].ret).min().unwrap();
        let mut pushed = false;
        while f.next < n {
            let i = f.next;
            f.next += 1;
            if mask & (1 << i) != 0 || h.events[i].call > min_ret {
                continue;
            }
            steps += 1;
            if steps > cap {
                *steps_out += steps;
                return Lin::Capped;
            }
            let e = &h.events[i];
            let mut m2 = f.model.clone();
            if !m2.apply(e.op, e.tag, &e.res) {
                continue;
            }
            let nm = mask | (1 << i);
            if !seen.insert((nm, m2.clone())) {
                continue;
            }
            order.push(i);
            if order.len() > best.len() {
                best = order.clone();
            }
            stack.push(Frame { mask: nm, model: m2, next: 0 });
            pushed = true;
            break;
        }
        if !pushed {
            stack.pop();
            order.pop();
        }
    }
    *steps_out += steps;
    Lin::No(best)
}

/// Cause predicate of a non-linearisable history: the first simple anomaly that the history shows
/// on its face, else `unexplained`.
pub fn history_cause(h: &History) -> String {
    for e in &h.events {
        if let Res::Panic(c) = &e.res {
            return format!("operation-panicked:{}", c);
        }
    }
    for e in &h.events {
        match (&e.op, &e.res) {
            (_, Res::List(l)) if has_dup_names(l) => return "a-name-listed-twice".into(),
            (_, Res::Names(n)) if n.windows(2).any(|w| w[0] == w[1]) => return "a-name-listed-twice".into(),
            (_, Res::List(l)) if !salience_sorted(l) => return "listing-not-in-descending-salience".into(),
            (Op::Get { n }, Res::Rule(Some(r))) if r.name != NAMES[*n as usize] => {
                return "lookup-returns-rule-of-another-name".into()
            }
            _ => {}
        }
    }
    let ver = |e: &Event| match &e.res {
        Res::Version(v) => Some(*v),
        Res::Stats { version, .. } => Some(*version),
        _ => None,
    };
    for a in &h.events {
        for b in &h.events {
            if let (Some(va), Some(vb)) = (ver(a), ver(b)) {
                if a.ret < b.call && vb < va {
                    return "version-decreased-in-real-time-order".into();
                }
            }
        }
    }
    // the same name added successfully twice although no removal of it can lie between the two adds
    for n in 0..NAMES.len() as u8 {
        let adds: Vec<&Event> = h.events.iter().filter(|e| matches!(e.op, Op::Add { n: x, .. } if x == n) && e.res == Res::AddOk).collect();
        for (i, a) in adds.iter().enumerate() {
            for b in &adds[i + 1..] {
                let first_call = a.call.min(b.call);
                let last_ret = a.ret.max(b.ret);
                let removal_between_possible = h.events.iter().any(|e| {
                    ((e.op == Op::Remove { n } && e.res == Res::Bool(true)) || e.op == Op::Clear) && !(e.ret < first_call) && !(e.call > last_ret)
                });
                if !removal_between_possible {
                    return "duplicate-add-accepted".into();
                }
            }
        }
    }
    "unexplained".into()
}

pub fn describe_history(h: &History, best: &[usize]) -> String {
    let mut evs: Vec<&Event> = h.events.iter().collect();
    evs.sort_by_key(|e| e.call);
    let mut s = String::new();
    for e in evs {
        s.push_str(&format!(
            "[T{}#{} {}..{} {} -> {}] ",
            e.thread,
            e.idx,
            e.call,
            e.ret,
            e.op.text(),
            e.res.to_json()
        ));
    }
    s.push_str(&format!(
        "| longest legal linearisation prefix: {:?} of {} operations",
        best.iter().map(|i| format!("T{}#{}", h.events[*i].thread, h.events[*i].idx)).collect::<Vec<_>>(),
        h.events.len()
    ));
    s
}

pub fn witness_hash(h: &History, order: &[usize]) -> u64 {
    let mut x: u64 = 0xcbf2_9ce4_8422_2325;
    for i in order {
        let e = &h.events[*i];
        x ^= ((e.thread as u64) << 8) | e.idx as u64;
        x = x.wrapping_mul(0x0000_0100_0000_01b3);
    }
    x
}

pub const LIN_CAP: u64 = 2_000_000;

/// Verdict on one recorded history.
pub enum HVerdict {
    Linearizable { witness: u64 },
    Violation { cause: String, detail: String },
    Inconclusive,
}

pub fn judge(h: &History, expected_events: usize, steps: &mut u64) -> HVerdict {
    if h.events.len() != expected_events {
        // a worker thread died outside an operation: nothing to judge
        return HVerdict::Inconclusive;
    }
    match linearizable(h, LIN_CAP, steps) {
        Lin::Yes(o) => HVerdict::Linearizable { witness: witness_hash(h, &o) },
        Lin::Capped => HVerdict::Inconclusive,
        Lin::No(best) => HVerdict::Violation { cause: history_cause(h), detail: describe_history(h, &best) },
    }
}
