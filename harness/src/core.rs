//! Driver shared by every property binary: CLI, statistics, violations and their signatures,
//! the known-findings protocol, replay files and the evidence writer.

use crate::rng::Rng;
use serde_json::json;
use std::collections::{BTreeMap, HashSet};
use std::hash::{Hash, Hasher};
use std::path::{Path, PathBuf};
use std::time::Instant;

pub type Json = serde_json::Value;

#[derive(Clone, Copy, Debug, PartialEq, Eq)]
pub enum Tier {
    Quick,
    Thorough,
}

impl Tier {
    pub fn name(self) -> &'static str {
        match self {
            Tier::Quick => "quick",
            Tier::Thorough => "thorough",
        }
    }
    /// pick by tier
    pub fn pick<T>(self, quick: T, thorough: T) -> T {
        match self {
            Tier::Quick => quick,
            Tier::Thorough => thorough,
        }
    }
}

#[derive(Clone, Debug)]
pub struct Cli {
    pub tier: Tier,
    pub seed: u64,
    pub replay: Option<PathBuf>,
    pub worker: Option<Vec<String>>,
    pub verbose: bool,
    pub root: PathBuf,
    pub threads: usize,
    pub start: Instant,
    /// soft wall-clock budget for the exploration part (seconds); exceeding it stops generating,
    /// it is never a verdict
    pub budget_s: f64,
}

impl Cli {
    pub fn expired(&self) -> bool {
        self.start.elapsed().as_secs_f64() > self.budget_s
    }
    /// scale a quick-tier count for the current tier (VERIF_SCALE multiplies both)
    pub fn n(&self, quick: u64, thorough: u64) -> u64 {
        let base = self.tier.pick(quick, thorough);
        let scale: f64 = std::env::var("VERIF_SCALE")
            .ok()
            .and_then(|s| s.parse().ok())
            .unwrap_or(1.0);
        ((base as f64) * scale).max(1.0) as u64
    }
}

pub fn find_root() -> PathBuf {
    if let Ok(r) = std::env::var("VERIF_ROOT") {
        return PathBuf::from(r);
    }
    if let Ok(cwd) = std::env::current_dir() {
        let mut d: &Path = &cwd;
        loop {
            if d.join("properties.jsonl").exists() && d.join("harness").exists() {
                return d.to_path_buf();
            }
            match d.parent() {
                Some(p) => d = p,
                None => break,
            }
        }
    }
    PathBuf::from("/verif")
}

fn parse_cli() -> Cli {
    let args: Vec<String> = std::env::args().skip(1).collect();
    let mut tier = match std::env::var("VERIF_TIER").as_deref() {
        Ok("thorough") => Tier::Thorough,
        _ => Tier::Quick,
    };
    let mut replay = None;
    let mut worker = None;
    let mut verbose = std::env::var("VERIF_VERBOSE").map(|v| v == "1").unwrap_or(false);
    let mut i = 0;
    while i < args.len() {
        match args[i].as_str() {
            "--tier" => {
                i += 1;
                tier = match args.get(i).map(|s| s.as_str()) {
                    Some("thorough") => Tier::Thorough,
                    Some("quick") => Tier::Quick,
                    other => {
                        eprintln!("bad --tier {:?}", other);
                        std::process::exit(2);
                    }
                };
            }
            "--replay" => {
                i += 1;
                replay = args.get(i).map(PathBuf::from);
            }
            "--verbose" | "-v" => verbose = true,
            "--worker" => {
                worker = Some(args[i + 1..].to_vec());
                break;
            }
            other => {
                eprintln!("unknown argument {:?}", other);
                std::process::exit(2);
            }
        }
        i += 1;
    }
    let seed = std::env::var("VERIF_SEED")
        .ok()
        .and_then(|s| s.trim().parse::<i64>().ok())
        .map(|v| v as u64)
        .unwrap_or(1);
    let threads = std::env::var("VERIF_THREADS")
        .ok()
        .and_then(|s| s.parse().ok())
        .unwrap_or_else(|| {
            std::thread::available_parallelism()
                .map(|n| n.get())
                .unwrap_or(4)
                .min(16)
        });
    let budget_s = std::env::var("VERIF_BUDGET_S")
        .ok()
        .and_then(|s| s.parse().ok())
        .unwrap_or(match tier {
            Tier::Quick => 150.0,
            Tier::Thorough => 1500.0,
        });
    Cli {
        tier,
        seed,
        replay,
        worker,
        verbose,
        root: find_root(),
        threads,
        start: Instant::now(),
        budget_s,
    }
}

#[derive(Clone, Debug)]
pub struct Violation {
    /// which clause of the statement is refuted
    pub clause: String,
    /// `<ID>|<clause>|<cause predicates>`; `…|unexplained` when no cause predicate applies
    pub sig: String,
    /// human-readable expected-vs-observed
    pub detail: String,
    /// the concrete (shrunk) case, re-executable by `replay`
    pub case: Json,
}

pub const DISTINCT_CAP: usize = 4_000_000;
pub const SAMPLE_CAP: usize = 6;

/// What one shard (or the whole run) observed.
#[derive(Default)]
pub struct Stats {
    pub evaluations: u64,
    pub distinct: HashSet<u64>,
    pub distinct_saturated: bool,
    pub counters: BTreeMap<String, u64>,
    pub samples: Vec<Json>,
    pub violations: Vec<Violation>,
    pub inconclusive: Vec<String>,
    pub exhaustive: Vec<String>,
    pub notes: Vec<String>,
}

pub fn hash_of<T: Hash + ?Sized>(t: &T) -> u64 {
    let mut h = std::collections::hash_map::DefaultHasher::new();
    t.hash(&mut h);
    h.finish()
}

impl Stats {
    pub fn new() -> Self {
        Self::default()
    }
    pub fn eval(&mut self) {
        self.evaluations += 1;
    }
    /// Record a case that satisfied the property's non-triviality rule (by structural hash).
    pub fn nontrivial(&mut self, h: u64) {
        if self.distinct.len() < DISTINCT_CAP {
            self.distinct.insert(h);
        } else {
            self.distinct_saturated = true;
        }
    }
    pub fn count(&mut self, key: &str) {
        *self.counters.entry(key.to_string()).or_insert(0) += 1;
    }
    pub fn add(&mut self, key: &str, n: u64) {
        *self.counters.entry(key.to_string()).or_insert(0) += n;
    }
    pub fn max(&mut self, key: &str, n: u64) {
        let e = self.counters.entry(key.to_string()).or_insert(0);
        if n > *e {
            *e = n;
        }
    }
    pub fn get(&self, key: &str) -> u64 {
        self.counters.get(key).copied().unwrap_or(0)
    }
    pub fn sample(&mut self, j: impl FnOnce() -> Json) {
        if self.samples.len() < SAMPLE_CAP {
            self.samples.push(j());
        }
    }
    pub fn violation(&mut self, v: Violation) {
        // keep memory bounded: at most 200 per signature
        let n = self.violations.iter().filter(|x| x.sig == v.sig).count();
        self.count(&format!("violations_by_sig::{}", v.sig));
        if n < 200 {
            self.violations.push(v);
        }
    }
    pub fn inconclusive(&mut self, why: impl Into<String>) {
        let w = why.into();
        if !self.inconclusive.contains(&w) {
            self.inconclusive.push(w);
        }
    }
    pub fn merge(&mut self, o: Stats) {
        self.evaluations += o.evaluations;
        for h in o.distinct {
            if self.distinct.len() < DISTINCT_CAP {
                self.distinct.insert(h);
            } else {
                self.distinct_saturated = true;
                break;
            }
        }
        self.distinct_saturated |= o.distinct_saturated;
        for (k, v) in o.counters {
            if k.starts_with("max::") {
                let e = self.counters.entry(k).or_insert(0);
                if v > *e {
                    *e = v;
                }
            } else {
                *self.counters.entry(k).or_insert(0) += v;
            }
        }
        for s in o.samples {
            if self.samples.len() < SAMPLE_CAP {
                self.samples.push(s);
            }
        }
        for v in o.violations {
            let n = self.violations.iter().filter(|x| x.sig == v.sig).count();
            if n < 200 {
                self.violations.push(v);
            }
        }
        for i in o.inconclusive {
            self.inconclusive(i);
        }
        for e in o.exhaustive {
            if !self.exhaustive.contains(&e) {
                self.exhaustive.push(e);
            }
        }
        for n in o.notes {
            if !self.notes.contains(&n) && self.notes.len() < 50 {
                self.notes.push(n);
            }
        }
    }
}

/// One entry of KNOWN_FINDINGS.txt.
#[derive(Clone, Debug)]
pub struct Finding {
    pub open: bool,
    pub property: String,
    pub sig: String,
    pub witness: String,
    pub what: String,
}

/// Parse KNOWN_FINDINGS.txt (committed, never written at run time).
/// `open: property=<id> sig=<signature> witness=known/<id>/<file> :: <what fails>`
/// `fixed: property=<id> <commit> <what failed>`
pub fn load_findings(root: &Path) -> Vec<Finding> {
    let mut out = Vec::new();
    let Ok(text) = std::fs::read_to_string(root.join("KNOWN_FINDINGS.txt")) else {
        return out;
    };
    for line in text.lines() {
        let l = line.trim();
        if l.is_empty() || l.starts_with('#') {
            continue;
        }
        if let Some(rest) = l.strip_prefix("open:") {
            // the separator is " :: " with spaces: signatures may contain Rust paths (`a::b`)
            let (head, what) = match rest.split_once(" :: ") {
                Some((h, w)) => (h.trim(), w.trim()),
                None => (rest.trim(), ""),
            };
            let mut property = String::new();
            let mut sig = String::new();
            let mut witness = String::new();
            for tok in head.split_whitespace() {
                if let Some(v) = tok.strip_prefix("property=") {
                    property = v.to_string();
                } else if let Some(v) = tok.strip_prefix("sig=") {
                    sig = v.to_string();
                } else if let Some(v) = tok.strip_prefix("witness=") {
                    witness = v.to_string();
                }
            }
            out.push(Finding {
                open: true,
                property,
                sig,
                witness,
                what: what.to_string(),
            });
        } else if let Some(rest) = l.strip_prefix("fixed:") {
            let mut property = String::new();
            for tok in rest.split_whitespace() {
                if let Some(v) = tok.strip_prefix("property=") {
                    property = v.to_string();
                }
            }
            out.push(Finding {
                open: false,
                property,
                sig: String::new(),
                witness: String::new(),
                what: rest.trim().to_string(),
            });
        }
    }
    out
}

/// What each property binary implements.
pub trait Check: Sync {
    fn id(&self) -> &'static str;
    fn level(&self) -> &'static str {
        "exploration"
    }
    /// coverage.rule: how cases are generated and what makes one non-trivial / distinct
    fn rule(&self) -> String;
    fn assumptions(&self) -> Vec<String> {
        vec![]
    }
    /// The workload + monitors. Fills `st`.
    fn explore(&self, cli: &Cli, st: &mut Stats);
    /// Re-execute one concrete case (from a replay file or a pinned known-finding witness).
    fn replay(&self, cli: &Cli, case: &Json) -> Vec<Violation>;
    /// Child-process entry point (`--worker …`); returns the exit code.
    fn worker(&self, _cli: &Cli, _args: &[String]) -> i32 {
        2
    }
    /// Some(scale): after the exploration in the release build, the same exploration is run once
    /// more, scaled by `scale`, in the `devopt` build of this binary (debug assertions and
    /// overflow checks on — what a user's `cargo build` / `cargo test` gets), when `./check`
    /// provides it through VERIF_DEVOPT_BIN. Arithmetic that wraps silently in release panics there.
    fn devopt_scale(&self) -> Option<f64> {
        None
    }
}

/// true in the `devopt` build of the harness (and of the repository under it)
pub fn is_devopt_build() -> bool {
    cfg!(debug_assertions)
}

fn devopt_exe() -> Option<PathBuf> {
    let p = PathBuf::from(std::env::var("VERIF_DEVOPT_BIN").ok()?);
    if p.exists() {
        Some(p)
    } else {
        None
    }
}

/// Replay of one case in the build profile it was found in.
fn replay_any<C: Check>(c: &C, cli: &Cli, case: &Json) -> Vec<Violation> {
    if case.get("kind").and_then(|v| v.as_str()) == Some("stall") {
        // the exploration of that tier and seed once more; the watchdog reports and exits if it stalls again
        let mut cli2 = cli.clone();
        if case.get("tier").and_then(|v| v.as_str()) == Some("thorough") {
            cli2.tier = Tier::Thorough;
        }
        if let Some(s) = case.get("seed").and_then(|v| v.as_u64()) {
            cli2.seed = s;
        }
        let mut st = Stats::new();
        c.explore(&cli2, &mut st);
        return std::mem::take(&mut st.violations);
    }
    let wants_devopt = case.get("build_profile").and_then(|v| v.as_str()) == Some("devopt");
    if wants_devopt && !is_devopt_build() {
        match devopt_exe() {
            Some(exe) => {
                let mut cmd = std::process::Command::new(exe);
                cmd.arg("--worker").arg("devopt-case");
                let lim = crate::child::Limits { cpu_s: 1200, as_bytes: None, wall_s: 3600.0, stack_bytes: None };
                match crate::child::run_cmd(cmd, case.to_string().as_bytes(), &lim) {
                    Ok(o) if o.ok() => {
                        let mut vs = Vec::new();
                        for l in parse_prefixed(&o.stdout, "VIOLS ") {
                            if let Ok(Json::Array(a)) = serde_json::from_str::<Json>(l) {
                                vs.extend(a.iter().filter_map(violation_from).map(tag_devopt));
                            }
                        }
                        return vs;
                    }
                    Ok(o) => {
                        crate::out!("INCONCLUSIVE property={} devopt replay child failed: {}", c.id(), o.describe());
                        return vec![];
                    }
                    Err(e) => {
                        crate::out!("INCONCLUSIVE property={} devopt replay child could not be started: {}", c.id(), e);
                        return vec![];
                    }
                }
            }
            None => crate::err!("{}: the case was found in the devopt build but VERIF_DEVOPT_BIN is not available; replaying in this build", c.id()),
        }
    }
    c.replay(cli, case)
}

fn tag_devopt(mut v: Violation) -> Violation {
    if let Json::Object(m) = &mut v.case {
        m.insert("build_profile".into(), json!("devopt"));
    }
    if !v.detail.starts_with("[devopt build") {
        v.detail = format!("[devopt build: debug assertions + overflow checks] {}", v.detail);
    }
    v
}

/// The scaled second exploration in the devopt build (see `Check::devopt_scale`).
fn devopt_subrun<C: Check>(c: &C, cli: &Cli, st: &mut Stats, scale: f64) {
    let Some(exe) = devopt_exe() else {
        st.notes.push("devopt build (debug assertions + overflow checks) not exercised: VERIF_DEVOPT_BIN not provided".into());
        return;
    };
    let base: f64 = std::env::var("VERIF_SCALE").ok().and_then(|s| s.parse().ok()).unwrap_or(1.0);
    let mut cmd = std::process::Command::new(exe);
    cmd.arg("--tier").arg(cli.tier.name()).arg("--worker").arg("devopt-explore");
    cmd.env("VERIF_SCALE", format!("{}", base * scale));
    cmd.env("VERIF_SEED", format!("{}", cli.seed as i64));
    cmd.env("VERIF_THREADS", format!("{}", cli.threads));
    let lim = crate::child::Limits { cpu_s: (cli.budget_s as u64 + 600) * cli.threads as u64, as_bytes: None, wall_s: cli.budget_s * 4.0 + 600.0, stack_bytes: None };
    match crate::child::run_cmd(cmd, b"", &lim) {
        Ok(o) if o.ok() => {
            let mut got = false;
            for l in parse_prefixed(&o.stdout, "STATS ") {
                if let Some(mut s) = serde_json::from_str::<Json>(l).ok().and_then(|j| Stats::from_json(&j)) {
                    got = true;
                    st.add("devopt_build::evaluations", s.evaluations);
                    st.add("devopt_build::violations", s.violations.len() as u64);
                    let vs = std::mem::take(&mut s.violations);
                    for v in vs {
                        s.violations.push(tag_devopt(v));
                    }
                    st.merge(s);
                }
            }
            if !got {
                st.inconclusive("the devopt-build exploration returned no statistics");
            }
        }
        Ok(o) => st.inconclusive(format!("the devopt-build exploration child failed: {}", o.describe())),
        Err(e) => st.inconclusive(format!("the devopt-build exploration child could not be started: {}", e)),
    }
}

fn write_replay(root: &Path, id: &str, cli: &Cli, v: &Violation) -> PathBuf {
    let dir = root.join("replays").join(id);
    let _ = std::fs::create_dir_all(&dir);
    let h = hash_of(&(v.sig.as_str(), v.case.to_string()));
    let path = dir.join(format!("{:016x}.json", h));
    let j = json!({
        "property": id,
        "tier": cli.tier.name(),
        "seed": cli.seed,
        "sig": v.sig,
        "clause": v.clause,
        "detail": v.detail,
        "case": v.case,
    });
    let _ = std::fs::write(&path, serde_json::to_string_pretty(&j).unwrap_or_default());
    path
}

fn load_case(path: &Path) -> Result<Json, String> {
    let text = std::fs::read_to_string(path).map_err(|e| format!("{}: {}", path.display(), e))?;
    let j: Json = serde_json::from_str(&text).map_err(|e| format!("{}: {}", path.display(), e))?;
    Ok(match j.get("case") {
        Some(c) => c.clone(),
        None => j,
    })
}

/// Entry point of every property binary.
pub fn run_main<C: Check>(c: C) -> ! {
    let cli = parse_cli();
    crate::quiet::init();
    crate::pan::install_hook();
    let id = c.id();
    start_stall_watchdog(id, cli.worker.is_some(), cli.tier.name(), cli.seed, cli.root.clone());

    if let Some(w) = &cli.worker {
        match w.first().map(|s| s.as_str()) {
            Some("devopt-explore") => {
                let mut st = Stats::new();
                c.explore(&cli, &mut st);
                crate::out!("STATS {}", st.to_json());
                std::process::exit(0);
            }
            Some("devopt-case") => {
                let mut text = String::new();
                use std::io::Read;
                let case = std::io::stdin().read_to_string(&mut text).ok().and_then(|_| serde_json::from_str::<Json>(&text).ok());
                let Some(case) = case else { std::process::exit(2) };
                let vs = c.replay(&cli, &case);
                crate::out!("VIOLS {}", Json::Array(vs.iter().map(violation_json).collect()));
                std::process::exit(0);
            }
            _ => {}
        }
        let code = c.worker(&cli, w);
        std::process::exit(code);
    }

    if let Some(path) = &cli.replay {
        let case = match load_case(path) {
            Ok(c) => c,
            Err(e) => {
                crate::out!("HARNESS-ERROR property={} cannot load replay: {}", id, e);
                std::process::exit(2);
            }
        };
        let vs = replay_any(&c, &cli, &case);
        if vs.is_empty() {
            crate::out!("REPLAY property={} result=no-violation", id);
            std::process::exit(0);
        }
        for v in &vs {
            crate::out!("REPLAY property={} result=violation sig={}", id, v.sig);
            crate::out!("  clause: {}", v.clause);
            crate::out!("  detail: {}", v.detail);
        }
        crate::out!("VIOLATION property={} replay={}", id, path.display());
        std::process::exit(1);
    }

    let findings = load_findings(&cli.root);
    let open: Vec<&Finding> = findings
        .iter()
        .filter(|f| f.open && f.property == id)
        .collect();

    let mut st = Stats::new();
    let mut confirmed: Vec<(String, String)> = Vec::new();
    let mut stale: Vec<String> = Vec::new();

    // 1. re-run the pinned witness of every open finding of this property
    for f in &open {
        let path = cli.root.join(&f.witness);
        match load_case(&path) {
            Ok(case) => {
                let vs = replay_any(&c, &cli, &case);
                let mut hit = false;
                for v in vs {
                    if v.sig == f.sig {
                        hit = true;
                    } else {
                        st.violation(v);
                    }
                }
                if hit {
                    confirmed.push((f.sig.clone(), f.what.clone()));
                } else {
                    stale.push(f.sig.clone());
                }
            }
            Err(e) => {
                crate::out!("HARNESS-ERROR property={} known-finding witness: {}", id, e);
                std::process::exit(2);
            }
        }
    }

    // 2. the exploration
    c.explore(&cli, &mut st);
    if let Some(scale) = c.devopt_scale() {
        if !is_devopt_build() {
            devopt_subrun(&c, &cli, &mut st, scale);
        }
    }

    // 3. classify
    let open_sigs: HashSet<&str> = open.iter().map(|f| f.sig.as_str()).collect();
    let mut known_hits: BTreeMap<String, u64> = BTreeMap::new();
    let mut fresh: BTreeMap<String, Vec<&Violation>> = BTreeMap::new();
    let all_violations = std::mem::take(&mut st.violations);
    for v in &all_violations {
        if open_sigs.contains(v.sig.as_str()) {
            *known_hits.entry(v.sig.clone()).or_insert(0) += 1;
        } else {
            fresh.entry(v.sig.clone()).or_default().push(v);
        }
    }

    for (sig, what) in &confirmed {
        crate::out!("KNOWN-FINDING: property={} {} [sig={}]", id, what, sig);
    }
    for sig in &stale {
        crate::out!(
            "STALE-FINDING: property={} sig={} (pinned witness no longer violates; entry suppresses nothing else)",
            id,
            sig
        );
    }

    let mut replay_paths = Vec::new();
    let mut printed = 0;
    for (sig, vs) in &fresh {
        // smallest witness of each signature
        let v = vs
            .iter()
            .min_by_key(|v| v.case.to_string().len())
            .unwrap();
        let p = write_replay(&cli.root, id, &cli, v);
        if printed < 25 {
            crate::out!("VIOLATION property={} replay={}", id, p.display());
            crate::out!("  sig: {}", sig);
            crate::out!("  clause: {}", v.clause);
            let d: String = v.detail.chars().take(600).collect();
            crate::out!("  detail: {}", d);
            printed += 1;
        }
        replay_paths.push(p.display().to_string());
    }

    if st.evaluations == 0 {
        st.inconclusive("no executions were run");
    } else if st.distinct.len() < 2 {
        st.inconclusive("fewer than 2 distinct non-trivial cases were observed");
    }

    // 4. evidence
    let wall = cli.start.elapsed().as_secs_f64();
    let mut coverage = serde_json::Map::new();
    coverage.insert("evaluations".into(), json!(st.evaluations));
    coverage.insert("distinct_nontrivial".into(), json!(st.distinct.len()));
    let mut rule = c.rule();
    if st.distinct_saturated {
        rule.push_str(&format!(
            " [distinct counter saturated at {}: the number is a lower bound]",
            DISTINCT_CAP
        ));
    }
    coverage.insert("rule".into(), json!(rule));
    if st.samples.is_empty() {
        st.samples.push(json!("no sample recorded"));
    }
    coverage.insert("samples".into(), json!(st.samples));
    if !st.exhaustive.is_empty() {
        coverage.insert("exhaustive".into(), json!(true));
        coverage.insert("exhaustive_subspaces".into(), json!(st.exhaustive));
    }
    let counters: BTreeMap<&String, &u64> = st
        .counters
        .iter()
        .filter(|(k, _)| !k.starts_with("violations_by_sig::") && !k.starts_with("shrink_cache::"))
        .collect();
    coverage.insert("observed".into(), json!(counters));
    coverage.insert(
        "known_findings_confirmed".into(),
        json!(confirmed.iter().map(|(s, _)| s).collect::<Vec<_>>()),
    );
    coverage.insert("known_finding_hits_in_exploration".into(), json!(known_hits));
    coverage.insert("stale_findings".into(), json!(stale));
    coverage.insert("inconclusive".into(), json!(st.inconclusive));
    coverage.insert("new_violation_signatures".into(), json!(fresh.keys().collect::<Vec<_>>()));
    coverage.insert("replays".into(), json!(replay_paths));
    if !st.notes.is_empty() {
        coverage.insert("notes".into(), json!(st.notes));
    }
    coverage.insert("threads".into(), json!(cli.threads));
    let ev = json!({
        "property_id": id,
        "tier": cli.tier.name(),
        "seed": cli.seed as i64,
        "level": c.level(),
        "coverage": Json::Object(coverage),
        "assumptions": c.assumptions(),
        "wall_s": (wall * 100.0).round() / 100.0,
        "violations": fresh.values().map(|v| v.len()).sum::<usize>(),
    });
    let evdir = cli.root.join("evidence");
    let _ = std::fs::create_dir_all(&evdir);
    let evpath = evdir.join(format!("{}.json", id));
    if let Err(e) = std::fs::write(&evpath, serde_json::to_string_pretty(&ev).unwrap()) {
        crate::out!("HARNESS-ERROR property={} cannot write evidence: {}", id, e);
        std::process::exit(2);
    }

    let verdict = if !fresh.is_empty() {
        "violated"
    } else if !st.inconclusive.is_empty() {
        "inconclusive"
    } else {
        "held-on-observed"
    };
    crate::out!(
        "SUMMARY property={} tier={} seed={} verdict={} evaluations={} distinct_nontrivial={} known_findings={} new_signatures={} wall_s={:.1}",
        id,
        cli.tier.name(),
        cli.seed,
        verdict,
        st.evaluations,
        st.distinct.len(),
        confirmed.len(),
        fresh.len(),
        wall
    );
    if cli.verbose {
        for (k, v) in &st.counters {
            crate::out!("  observed {} = {}", k, v);
        }
    }
    if !fresh.is_empty() {
        std::process::exit(1);
    }
    if !st.inconclusive.is_empty() {
        for w in &st.inconclusive {
            crate::out!("INCONCLUSIVE property={} {}", id, w);
        }
        std::process::exit(3);
    }
    std::process::exit(0);
}

/// Run `f` on `n` shards in parallel (own PRNG stream and own Stats each) and merge.
pub fn shards<F>(cli: &Cli, n: usize, st: &mut Stats, f: F)
where
    F: Fn(usize, &mut Rng, &mut Stats) + Sync,
{
    let results: Vec<Stats> = std::thread::scope(|s| {
        let mut hs = Vec::new();
        for i in 0..n {
            let f = &f;
            let seed = cli.seed;
            let b = std::thread::Builder::new()
                .name(format!("shard{}", i))
                .stack_size(64 << 20);
            hs.push(
                b.spawn_scoped(s, move || {
                    let mut rng = Rng::derive(seed, i as u64 + 1);
                    let mut st = Stats::new();
                    match crate::pan::catch_frames(|| f(i, &mut rng, &mut st)) {
                        Ok(()) => {}
                        Err(p) => st.inconclusive(format!(
                            "harness shard {} panicked outside a monitored call: {} at {}:{} [{}]",
                            i, p.msg, p.file, p.line, p.frame
                        )),
                    }
                    st
                })
                .expect("spawn shard"),
            );
        }
        hs.into_iter()
            .map(|h| h.join().unwrap_or_else(|_| {
                let mut s = Stats::new();
                s.inconclusive("a shard thread died");
                s
            }))
            .collect()
    });
    for r in results {
        st.merge(r);
    }
}

/// Generic delta-debugging over a list: tries to drop chunks while `fails` stays true.
pub fn shrink_list<T: Clone>(items: &[T], fails: &mut dyn FnMut(&[T]) -> bool) -> Vec<T> {
    let mut cur: Vec<T> = items.to_vec();
    let mut chunk = (cur.len() / 2).max(1);
    let mut budget = 400usize;
    while chunk >= 1 && !cur.is_empty() && budget > 0 {
        let mut i = 0;
        let mut progressed = false;
        while i < cur.len() && budget > 0 {
            let end = (i + chunk).min(cur.len());
            let mut cand = cur.clone();
            cand.drain(i..end);
            budget -= 1;
            if fails(&cand) {
                cur = cand;
                progressed = true;
            } else {
                i += chunk;
            }
        }
        if !progressed {
            if chunk == 1 {
                break;
            }
            chunk /= 2;
        }
    }
    cur
}

// ------------------------------------------------------------------------------------------
// Shards in child processes: for workloads where the code under test may hang, abort or
// overflow the stack. The child runs one shard in-process and prints its Stats as JSON; the
// parent merges. A dead child is re-run in trace mode to find the case it died in, and that
// single case is re-run alone under a CPU limit to confirm (decided on CPU seconds, not wall).

fn violation_json(v: &Violation) -> Json {
    json!({ "clause": v.clause, "sig": v.sig, "detail": v.detail, "case": v.case })
}
fn violation_from(j: &Json) -> Option<Violation> {
    Some(Violation {
        clause: j.get("clause")?.as_str()?.to_string(),
        sig: j.get("sig")?.as_str()?.to_string(),
        detail: j.get("detail")?.as_str()?.to_string(),
        case: j.get("case")?.clone(),
    })
}

impl Stats {
    pub fn to_json(&self) -> Json {
        json!({
            "evaluations": self.evaluations,
            "distinct": self.distinct.iter().collect::<Vec<_>>(),
            "distinct_saturated": self.distinct_saturated,
            "counters": self.counters,
            "samples": self.samples,
            "violations": self.violations.iter().map(violation_json).collect::<Vec<_>>(),
            "inconclusive": self.inconclusive,
            "exhaustive": self.exhaustive,
            "notes": self.notes,
        })
    }
    pub fn from_json(j: &Json) -> Option<Stats> {
        let mut s = Stats::new();
        s.evaluations = j.get("evaluations")?.as_u64()?;
        for h in j.get("distinct")?.as_array()? {
            s.distinct.insert(h.as_u64()?);
        }
        s.distinct_saturated = j.get("distinct_saturated")?.as_bool()?;
        for (k, v) in j.get("counters")?.as_object()? {
            s.counters.insert(k.clone(), v.as_u64()?);
        }
        s.samples = j.get("samples")?.as_array()?.clone();
        for v in j.get("violations")?.as_array()? {
            s.violations.push(violation_from(v)?);
        }
        for v in j.get("inconclusive")?.as_array()? {
            s.inconclusive.push(v.as_str()?.to_string());
        }
        for v in j.get("exhaustive")?.as_array()? {
            s.exhaustive.push(v.as_str()?.to_string());
        }
        for v in j.get("notes")?.as_array()? {
            s.notes.push(v.as_str()?.to_string());
        }
        Some(s)
    }
}

/// In a child running with VERIF_TRACE=1: announce the case about to be executed.
pub fn breadcrumb(case: impl FnOnce() -> Json) {
    static ON: std::sync::OnceLock<bool> = std::sync::OnceLock::new();
    if *ON.get_or_init(|| std::env::var("VERIF_TRACE").map(|v| v == "1").unwrap_or(false)) {
        crate::out!("CASE {}", case());
    }
}

/// Child side of `child_shards`: `args` = ["shard", i, n, tag…]. Runs `f` and prints the Stats.
pub fn worker_shard_main<F>(cli: &Cli, args: &[String], f: F) -> i32
where
    F: Fn(usize, usize, &[String], &mut Rng, &mut Stats),
{
    let shard: usize = args.get(1).and_then(|s| s.parse().ok()).unwrap_or(0);
    let n: usize = args.get(2).and_then(|s| s.parse().ok()).unwrap_or(1);
    let mut rng = Rng::derive(cli.seed, shard as u64 + 1);
    let mut st = Stats::new();
    match crate::pan::catch_frames(|| f(shard, n, &args[3.min(args.len())..], &mut rng, &mut st)) {
        Ok(()) => {}
        Err(p) => st.inconclusive(format!(
            "harness shard {} panicked outside a monitored call: {} at {}:{} [{}]",
            shard, p.msg, p.file, p.line, p.frame
        )),
    }
    crate::out!("STATS {}", st.to_json());
    0
}

/// Child side for a single case: reads the case JSON on stdin, replays it, prints violations.
pub fn worker_case_main<C: Check>(c: &C, cli: &Cli) -> i32 {
    let mut text = String::new();
    use std::io::Read;
    if std::io::stdin().read_to_string(&mut text).is_err() {
        return 2;
    }
    let Ok(case) = serde_json::from_str::<Json>(&text) else {
        return 2;
    };
    std::env::set_var("VERIF_CHILD_CASE", "1");
    let vs = c.replay(cli, &case);
    crate::out!("VIOLS {}", Json::Array(vs.iter().map(violation_json).collect()));
    0
}

/// True inside a `--worker case` child: `replay` must then judge in-process.
pub fn in_case_child() -> bool {
    std::env::var("VERIF_CHILD_CASE").map(|v| v == "1").unwrap_or(false)
}

/// Classify the death of a single-case child. Ok(violation) or Err(why inconclusive).
pub fn death_to_violation(id: &str, case: &Json, c: &crate::child::ChildOutcome, case_cpu_s: u64) -> Result<Violation, String> {
    let (clause, cause) = if c.signal == Some(libc::SIGXCPU) || (c.signal == Some(libc::SIGKILL) && c.cpu_s >= case_cpu_s as f64 - 1.0) {
        ("does-not-return".to_string(), format!("cpu>{}s-alone-in-a-child", case_cpu_s))
    } else if c.wall_killed {
        return Err(format!("single case hit the wall-clock back-stop ({})", c.describe()));
    } else if let Some(sig) = c.signal {
        ("abnormal-termination".to_string(), format!("signal={}", sig))
    } else if c.exit == Some(STALL_EXIT) {
        ("does-not-return".to_string(), "stalled-without-using-cpu-alone-in-a-child".to_string())
    } else {
        return Err(format!("single-case child failed: {}", c.describe()));
    };
    Ok(Violation {
        sig: format!("{}|{}|{}", id, clause, cause),
        clause,
        detail: format!("the case, run alone in a child process, ended with {}", c.describe()),
        case: case.clone(),
    })
}

/// Replay one case in a child under a CPU limit (for properties whose violation is a hang/abort).
pub fn replay_via_child(id: &str, case: &Json, case_cpu_s: u64, as_bytes: Option<u64>) -> Vec<Violation> {
    match run_case_in_child(case, case_cpu_s, as_bytes) {
        Ok(vs) => vs,
        Err(c) => match death_to_violation(id, case, &c, case_cpu_s) {
            Ok(v) => vec![v],
            Err(why) => {
                crate::out!("INCONCLUSIVE property={} {}", id, why);
                vec![]
            }
        },
    }
}

pub struct ChildShardCfg {
    /// CPU-seconds limit of one shard child
    pub shard_cpu_s: u64,
    /// CPU-seconds limit when one case is re-run alone to confirm a death
    pub case_cpu_s: u64,
    pub as_bytes: Option<u64>,
    pub tag: Vec<String>,
}

fn parse_prefixed<'a>(out: &'a [u8], prefix: &str) -> Vec<&'a str> {
    std::str::from_utf8(out)
        .unwrap_or("")
        .lines()
        .filter_map(|l| l.strip_prefix(prefix))
        .collect()
}

/// Run one case alone in a child (`--worker case`, case JSON on stdin) under a CPU limit.
/// Returns Ok(violations) or Err(outcome) when the child died.
pub fn run_case_in_child(case: &Json, cpu_s: u64, as_bytes: Option<u64>) -> Result<Vec<Violation>, crate::child::ChildOutcome> {
    let lim = crate::child::Limits {
        cpu_s,
        as_bytes,
        wall_s: (cpu_s as f64) * 20.0 + 120.0,
        stack_bytes: None,
    };
    match crate::child::run_self(&["case".to_string()], case.to_string().as_bytes(), &lim) {
        Ok(o) if o.ok() => {
            let mut vs = Vec::new();
            for l in parse_prefixed(&o.stdout, "VIOLS ") {
                if let Ok(Json::Array(a)) = serde_json::from_str::<Json>(l) {
                    for v in a {
                        if let Some(v) = violation_from(&v) {
                            vs.push(v);
                        }
                    }
                }
            }
            Ok(vs)
        }
        Ok(o) => Err(o),
        Err(e) => Err(crate::child::ChildOutcome {
            exit: None,
            signal: None,
            stdout: format!("spawn failed: {}", e).into_bytes(),
            cpu_s: 0.0,
            wall_s: 0.0,
            wall_killed: false,
            max_rss_kb: 0,
        }),
    }
}

/// Parent side: spawn `n` children (`--worker shard <i> <n> <tag…>`), merge their Stats.
pub fn child_shards(_cli: &Cli, id: &str, n: usize, st: &mut Stats, cfg: &ChildShardCfg) {
    let results: Vec<Stats> = std::thread::scope(|s| {
        let mut hs = Vec::new();
        for i in 0..n {
            hs.push(s.spawn(move || {
                let mut local = Stats::new();
                let mut args = vec!["shard".to_string(), i.to_string(), n.to_string()];
                args.extend(cfg.tag.iter().cloned());
                let lim = crate::child::Limits {
                    cpu_s: cfg.shard_cpu_s,
                    as_bytes: cfg.as_bytes,
                    wall_s: (cfg.shard_cpu_s as f64) * 20.0 + 300.0,
                    stack_bytes: None,
                };
                let o = match crate::child::run_self(&args, b"", &lim) {
                    Ok(o) => o,
                    Err(e) => {
                        local.inconclusive(format!("cannot spawn shard child {}: {}", i, e));
                        return local;
                    }
                };
                if o.ok() {
                    let mut got = false;
                    for l in parse_prefixed(&o.stdout, "STATS ") {
                        if let Some(s) = serde_json::from_str::<Json>(l).ok().and_then(|j| Stats::from_json(&j)) {
                            local.merge(s);
                            got = true;
                        }
                    }
                    if !got {
                        local.inconclusive(format!("shard child {} returned no statistics", i));
                    }
                    local.add("child_cpu_ms", (o.cpu_s * 1000.0) as u64);
                    return local;
                }
                // the child died: find the case it died in (trace mode is deterministic)
                local.count("shard_children_died");
                if o.wall_killed {
                    local.inconclusive(format!("shard child {} hit the wall-clock back-stop ({})", i, o.describe()));
                    return local;
                }
                let exe = match std::env::current_exe() {
                    Ok(e) => e,
                    Err(_) => {
                        local.inconclusive("current_exe unavailable");
                        return local;
                    }
                };
                let mut cmd = std::process::Command::new(exe);
                cmd.arg("--worker").args(&args).env("VERIF_TRACE", "1");
                let traced = crate::child::run_cmd(cmd, b"", &lim);
                let last_case: Option<Json> = traced.ok().and_then(|t| {
                    parse_prefixed(&t.stdout, "CASE ")
                        .last()
                        .and_then(|l| serde_json::from_str::<Json>(l).ok())
                });
                let Some(case) = last_case else {
                    local.inconclusive(format!("shard child {} died ({}) and the responsible case could not be identified", i, o.describe()));
                    return local;
                };
                match run_case_in_child(&case, cfg.case_cpu_s, cfg.as_bytes) {
                    Ok(vs) => {
                        if vs.is_empty() {
                            local.inconclusive(format!("shard child {} died ({}) but the last case it announced runs fine alone", i, o.describe()));
                        }
                        for v in vs {
                            local.violation(v);
                        }
                    }
                    Err(c) => match death_to_violation(id, &case, &c, cfg.case_cpu_s) {
                        Ok(v) => local.violation(v),
                        Err(why) => local.inconclusive(why),
                    },
                }
                local
            }));
        }
        hs.into_iter()
            .map(|h| {
                h.join().unwrap_or_else(|_| {
                    let mut s = Stats::new();
                    s.inconclusive("a parent-side shard thread died");
                    s
                })
            })
            .collect()
    });
    for r in results {
        st.merge(r);
    }
}

// ---------------------------------------------------------------------------------------------
// Process-stall watchdog: a library call that blocks for ever (a lock taken twice, threads that
// wait for each other) burns no CPU, so no CPU limit ever fires. Every binary started through
// `run_main` runs this monitor: when, over STALL_SAMPLES consecutive one-second samples, every
// other thread of the process is asleep (none runnable, none in disk wait), the process used
// (almost) no CPU, and it has no child process to wait for, the process is stalled. Load cannot
// produce that verdict (a starved thread is runnable, state R); only waiting for nothing can.
// ---------------------------------------------------------------------------------------------

const STALL_SAMPLES: u32 = 25;
/// exit code of a worker child that found itself stalled
pub const STALL_EXIT: i32 = 86;

static STALL_PAUSED: std::sync::atomic::AtomicBool = std::sync::atomic::AtomicBool::new(false);

/// Phases in which the process legitimately sleeps without children (none so far) can pause the watchdog.
pub fn stall_watchdog_pause(p: bool) {
    STALL_PAUSED.store(p, std::sync::atomic::Ordering::SeqCst);
}

fn stall_thread_states(me: i64) -> (usize, usize) {
    let (mut n, mut sleeping) = (0, 0);
    if let Ok(rd) = std::fs::read_dir("/proc/self/task") {
        for e in rd.flatten() {
            let tid: i64 = e.file_name().to_string_lossy().parse().unwrap_or(-1);
            if tid == me {
                continue;
            }
            if let Ok(s) = std::fs::read_to_string(e.path().join("stat")) {
                if let Some(p) = s.rfind(')') {
                    n += 1;
                    if s[p + 1..].trim_start().starts_with('S') {
                        sleeping += 1;
                    }
                }
            }
        }
    }
    (n, sleeping)
}

fn stall_has_children() -> bool {
    let me = std::process::id().to_string();
    if let Ok(rd) = std::fs::read_dir("/proc") {
        for e in rd.flatten() {
            let name = e.file_name();
            let name = name.to_string_lossy();
            if !name.bytes().all(|b| b.is_ascii_digit()) {
                continue;
            }
            if let Ok(s) = std::fs::read_to_string(e.path().join("stat")) {
                if let Some(p) = s.rfind(')') {
                    // after ") " come: state ppid ...
                    let mut it = s[p + 1..].split_whitespace();
                    let _state = it.next();
                    if it.next() == Some(me.as_str()) {
                        return true;
                    }
                }
            }
        }
    }
    false
}

fn stall_cpu_us() -> u64 {
    let mut ru: libc::rusage = unsafe { std::mem::zeroed() };
    unsafe { libc::getrusage(libc::RUSAGE_SELF, &mut ru) };
    let tv = |t: libc::timeval| t.tv_sec as u64 * 1_000_000 + t.tv_usec as u64;
    tv(ru.ru_utime) + tv(ru.ru_stime)
}

/// Started by `run_main`. `worker`: the process is a `--worker` child (it then exits with
/// STALL_EXIT and lets the parent identify the case); otherwise it reports the violation itself.
fn start_stall_watchdog(id: &'static str, worker: bool, tier: &'static str, seed: u64, root: PathBuf) {
    let _ = std::thread::Builder::new().name("stall-watchdog".into()).spawn(move || {
        let me = unsafe { libc::syscall(libc::SYS_gettid) as i64 };
        let mut idle = 0u32;
        let mut cpu0 = stall_cpu_us();
        loop {
            std::thread::sleep(std::time::Duration::from_secs(1));
            let (n, sleeping) = stall_thread_states(me);
            let quiet = n > 0 && n == sleeping && !STALL_PAUSED.load(std::sync::atomic::Ordering::SeqCst);
            if !quiet {
                idle = 0;
                cpu0 = stall_cpu_us();
                continue;
            }
            idle += 1;
            if idle < STALL_SAMPLES {
                continue;
            }
            let used = stall_cpu_us() - cpu0;
            if used > 100_000 || stall_has_children() {
                idle = 0;
                cpu0 = stall_cpu_us();
                continue;
            }
            // stalled
            let detail = format!(
                "the process made no progress for {} s: all {} threads asleep, {} us of CPU used, no child process to wait for (a call into the library never returned and burns no CPU)",
                STALL_SAMPLES, n, used
            );
            if worker {
                crate::out!("STALL {}", detail);
                std::process::exit(STALL_EXIT);
            }
            let dir = root.join("replays").join(id);
            let _ = std::fs::create_dir_all(&dir);
            let path = dir.join(format!("stall-{}-{}.json", tier, seed));
            let j = json!({
                "property": id, "tier": tier, "seed": seed,
                "sig": format!("{}|does-not-return|process-stalled-without-using-cpu", id),
                "clause": "does-not-return",
                "detail": detail,
                "case": {"kind": "stall", "tier": tier, "seed": seed, "replay_note": "re-runs the exploration of this tier and seed under the same watchdog"},
            });
            let _ = std::fs::write(&path, serde_json::to_string_pretty(&j).unwrap_or_default());
            crate::out!("VIOLATION property={} replay={}", id, path.display());
            crate::out!("  sig: {}|does-not-return|process-stalled-without-using-cpu", id);
            crate::out!("  clause: does-not-return");
            crate::out!("  detail: {}", detail);
            crate::out!("SUMMARY property={} tier={} seed={} verdict=violated (stalled; statistics of the interrupted run are lost)", id, tier, seed);
            std::process::exit(1);
        }
    });
}
