//! Driver shared by every property binary: CLI, statistics, violations and their signatures,
//! the known-findings protocol, replay files and the evidence writer.

use crate::rng::Rng;
use serde_json::json;
use std::collections::{BTreeMap, HashSet};
use std::hash::{Hash, Hasher};
use std::path::{Path, PathBuf};
use std::time::Instant;

pub type Json = serde_json::Value;

#[derive(Clone, Copy, Debug, PartialEq, Eq)]
pub enum Tier {
    Quick,
    Thorough,
}

impl Tier {
    pub fn name(self) -> &'static str {
        match self {
            Tier::Quick => "quick",
            Tier::Thorough => "thorough",
        }
    }
    /// pick by tier
    pub fn pick<T>(self, quick: T, thorough: T) -> T {
        match self {
            Tier::Quick => quick,
            Tier::Thorough => thorough,
        }
    }
}

#[derive(Clone, Debug)]
pub struct Cli {
    pub tier: Tier,
    pub seed: u64,
    pub replay: Option<PathBuf>,
    pub worker: Option<Vec<String>>,
    pub verbose: bool,
    pub root: PathBuf,
    pub threads: usize,
    pub start: Instant,
    /// soft wall-clock budget for the exploration part (seconds); exceeding it stops generating,
    /// it is never a verdict
    pub budget_s: f64,
}

impl Cli {
    pub fn expired(&self) -> bool {
        self.start.elapsed().as_secs_f64() > self.budget_s
    }
    /// scale a quick-tier count for the current tier (VERIF_SCALE multiplies both)
    pub fn n(&self, quick: u64, thorough: u64) -> u64 {
        let base = self.tier.pick(quick, thorough);
        let scale: f64 = std::env::var("VERIF_SCALE")
            .ok()
            .and_then(|s| s.parse().ok())
            .unwrap_or(1.0);
        ((base as f64) * scale).max(1.0) as u64
    }
}

pub fn find_root() -> PathBuf {
    if let Ok(r) = std::env::var("VERIF_ROOT") {
        return PathBuf::from(r);
    }
    if let Ok(cwd) = std::env::current_dir() {
        let mut d: &Path = &cwd;
        loop {
            if d.join("properties.jsonl").exists() && d.join("harness").exists() {
                return d.to_path_buf();
            }
            match d.parent() {
                Some(p) => d = p,
                None => break,
            }
        }
    }
    PathBuf::from("/verif")
}

fn parse_cli() -> Cli {
    let args: Vec<String> = std::env::args().skip(1).collect();
    let mut tier = match std::env::var("VERIF_TIER").as_deref() {
        Ok("thorough") => Tier::Thorough,
        _ => Tier::Quick,
    };
    let mut replay = None;
    let mut worker = None;
    let mut verbose = std::env::var("VERIF_VERBOSE").map(|v| v == "1").unwrap_or(false);
    let mut i = 0;
    while i < args.len() {
        match args[i].as_str() {
            "--tier" => {
                i += 1;
                tier = match args.get(i).map(|s| s.as_str()) {
                    Some("thorough") => Tier::Thorough,
                    Some("quick") => Tier::Quick,
                    other => {
                        eprintln!("bad --tier {:?}", other);
                        std::process::exit(2);
                    }
                };
            }
            "--replay" => {
                i += 1;
                replay = args.get(i).map(PathBuf::from);
            }
            "--verbose" | "-v" => verbose = true,
            "--worker" => {
                worker = Some(args[i + 1..].to_vec());
                break;
            }
            other => {
                eprintln!("unknown argument {:?}", other);
                std::process::exit(2);
            }
        }
        i += 1;
    }
    let seed = std::env::var("VERIF_SEED")
        .ok()
        .and_then(|s| s.trim().parse::<i64>().ok())
        .map(|v| v as u64)
        .unwrap_or(1);
    let threads = std::env::var("VERIF_THREADS")
        .ok()
        .and_then(|s| s.parse().ok())
        .unwrap_or_else(|| {
            std::thread::available_parallelism()
                .map(|n| n.get())
                .unwrap_or(4)
                .min(16)
        });
    let budget_s = std::env::var("VERIF_BUDGET_S")
        .ok()
        .and_then(|s| s.parse().ok())
        .unwrap_or(match tier {
            Tier::Quick => 150.0,
            Tier::Thorough => 1500.0,
        });
    Cli {
        tier,
        seed,
        replay,
        worker,
        verbose,
        root: find_root(),
        threads,
        start: Instant::now(),
        budget_s,
    }
}

#[derive(Clone, Debug)]
pub struct Violation {
    /// which clause of the statement is refuted
    pub clause: String,
    /// `<ID>|<clause>|<cause predicates>`; `…|unexplained` when no cause predicate applies
    pub sig: String,
    /// human-readable expected-vs-observed
    pub detail: String,
    /// the concrete (shrunk) case, re-executable by `replay`
    pub case: Json,
}

pub const DISTINCT_CAP: usize = 4_000_000;
pub const SAMPLE_CAP: usize = 6;

/// What one shard (or the whole run) observed.
#[derive(Default)]
pub struct Stats {
    pub evaluations: u64,
    pub distinct: HashSet<u64>,
    pub distinct_saturated: bool,
    pub counters: BTreeMap<String, u64>,
    pub samples: Vec<Json>,
    pub violations: Vec<Violation>,
    pub inconclusive: Vec<String>,
    pub exhaustive: Vec<String>,
    pub notes: Vec<String>,
}

pub fn hash_of<T: Hash + ?Sized>(t: &T) -> u64 {
    let mut h = std::collections::hash_map::DefaultHasher::new();
    t.hash(&mut h);
    h.finish()
}

impl Stats {
    pub fn new() -> Self {
        Self::default()
    }
    pub fn eval(&mut self) {
        self.evaluations += 1;
    }
    /// Record a case that satisfied the property's non-triviality rule (by structural hash).
    pub fn nontrivial(&mut self, h: u64) {
        if self.distinct.len() < DISTINCT_CAP {
            self.distinct.insert(h);
        } else {
            self.distinct_saturated = true;
        }
    }
    pub fn count(&mut self, key: &str) {
        *self.counters.entry(key.to_string()).or_insert(0) += 1;
    }
    pub fn add(&mut self, key: &str, n: u64) {
        *self.counters.entry(key.to_string()).or_insert(0) += n;
    }
    pub fn max(&mut self, key: &str, n: u64) {
        let e = self.counters.entry(key.to_string()).or_insert(0);
        if n > *e {
            *e = n;
        }
    }
    pub fn get(&self, key: &str) -> u64 {
        self.counters.get(key).copied().unwrap_or(0)
    }
    pub fn sample(&mut self, j: impl FnOnce() -> Json) {
        if self.samples.len() < SAMPLE_CAP {
            self.samples.push(j());
        }
    }
    pub fn violation(&mut self, v: Violation) {
        // keep memory bounded: at most 200 per signature
        let n = self.violations.iter().filter(|x| x.sig == v.sig).count();
        self.count(&format!("violations_by_sig::{}", v.sig));
        if n < 200 {
            self.violations.push(v);
        }
    }
    pub fn inconclusive(&mut self, why: impl Into<String>) {
        let w = why.into();
        if !self.inconclusive.contains(&w) {
            self.inconclusive.push(w);
        }
    }
    pub fn merge(&mut self, o: Stats) {
        self.evaluations += o.evaluations;
        for h in o.distinct {
            if self.distinct.len() < DISTINCT_CAP {
                self.distinct.insert(h);
            } else {
                self.distinct_saturated = true;
                break;
            }
        }
        self.distinct_saturated |= o.distinct_saturated;
        for (k, v) in o.counters {
            if k.starts_with("max::") {
                let e = self.counters.entry(k).or_insert(0);
                if v > *e {
                    *e = v;
                }
            } else {
                *self.counters.entry(k).or_insert(0) += v;
            }
        }
        for s in o.samples {
            if self.samples.len() < SAMPLE_CAP {
                self.samples.push(s);
            }
        }
        for v in o.violations {
            let n = self.violations.iter().filter(|x| x.sig == v.sig).count();
            if n < 200 {
                self.violations.push(v);
            }
        }
        for i in o.inconclusive {
            self.inconclusive(i);
        }
        for e in o.exhaustive {
            if !self.exhaustive.contains(&e) {
                self.exhaustive.push(e);
            }
        }
        for n in o.notes {
            if !self.notes.contains(&n) && self.notes.len() < 50 {
                self.notes.push(n);
            }
        }
    }
}

/// One entry of KNOWN_FINDINGS.txt.
#[derive(Clone, Debug)]
pub struct Finding {
    pub open: bool,
    pub property: String,
    pub sig: String,
    pub witness: String,
    pub what: String,
}

/// Parse KNOWN_FINDINGS.txt (committed, never written at run time).
/// `open: property=<id> sig=<signature> witness=known/<id>/<file> :: <what fails>`
/// `fixed: property=<id> <commit> <what failed>`
pub fn load_findings(root: &Path) -> Vec<Finding> {
    let mut out = Vec::new();
    let Ok(text) = std::fs::read_to_string(root.join("KNOWN_FINDINGS.txt")) else {
        return out;
    };
    for line in text.lines() {
        let l = line.trim();
        if l.is_empty() || l.starts_with('#') {
            continue;
        }
        if let Some(rest) = l.strip_prefix("open:") {
            let (head, what) = match rest.split_once("::") {
                Some((h, w)) => (h.trim(), w.trim()),
                None => (rest.trim(), ""),
            };
            let mut property = String::new();
            let mut sig = String::new();
            let mut witness = String::new();
            for tok in head.split_whitespace() {
                if let Some(v) = tok.strip_prefix("property=") {
                    property = v.to_string();
                } else if let Some(v) = tok.strip_prefix("sig=") {
                    sig = v.to_string();
                } else if let Some(v) = tok.strip_prefix("witness=") {
                    witness = v.to_string();
                }
            }
            out.push(Finding {
                open: true,
                property,
                sig,
                witness,
                what: what.to_string(),
            });
        } else if let Some(rest) = l.strip_prefix("fixed:") {
            let mut property = String::new();
            for tok in rest.split_whitespace() {
                if let Some(v) = tok.strip_prefix("property=") {
                    property = v.to_string();
                }
            }
            out.push(Finding {
                open: false,
                property,
                sig: String::new(),
                witness: String::new(),
                what: rest.trim().to_string(),
            });
        }
    }
    out
}

/// What each property binary implements.
pub trait Check: Sync {
    fn id(&self) -> &'static str;
    fn level(&self) -> &'static str {
        "exploration"
    }
    /// coverage.rule: how cases are generated and what makes one non-trivial / distinct
    fn rule(&self) -> String;
    fn assumptions(&self) -> Vec<String> {
        vec![]
    }
    /// The workload + monitors. Fills `st`.
    fn explore(&self, cli: &Cli, st: &mut Stats);
    /// Re-execute one concrete case (from a replay file or a pinned known-finding witness).
    fn replay(&self, cli: &Cli, case: &Json) -> Vec<Violation>;
    /// Child-process entry point (`--worker …`); returns the exit code.
    fn worker(&self, _cli: &Cli, _args: &[String]) -> i32 {
        2
    }
}

fn write_replay(root: &Path, id: &str, cli: &Cli, v: &Violation) -> PathBuf {
    let dir = root.join("replays").join(id);
    let _ = std::fs::create_dir_all(&dir);
    let h = hash_of(&(v.sig.as_str(), v.case.to_string()));
    let path = dir.join(format!("{:016x}.json", h));
    let j = json!({
        "property": id,
        "tier": cli.tier.name(),
        "seed": cli.seed,
        "sig": v.sig,
        "clause": v.clause,
        "detail": v.detail,
        "case": v.case,
    });
    let _ = std::fs::write(&path, serde_json::to_string_pretty(&j).unwrap_or_default());
    path
}

fn load_case(path: &Path) -> Result<Json, String> {
    let text = std::fs::read_to_string(path).map_err(|e| format!("{}: {}", path.display(), e))?;
    let j: Json = serde_json::from_str(&text).map_err(|e| format!("{}: {}", path.display(), e))?;
    Ok(match j.get("case") {
        Some(c) => c.clone(),
        None => j,
    })
}

/// Entry point of every property binary.
pub fn run_main<C: Check>(c: C) -> ! {
    let cli = parse_cli();
    crate::quiet::init();
    crate::pan::install_hook();
    let id = c.id();

    if let Some(w) = &cli.worker {
        let code = c.worker(&cli, w);
        std::process::exit(code);
    }

    if let Some(path) = &cli.replay {
        let case = match load_case(path) {
            Ok(c) => c,
            Err(e) => {
                crate::out!("HARNESS-ERROR property={} cannot load replay: {}", id, e);
                std::process::exit(2);
            }
        };
        let vs = c.replay(&cli, &case);
        if vs.is_empty() {
            crate::out!("REPLAY property={} result=no-violation", id);
            std::process::exit(0);
        }
        for v in &vs {
            crate::out!("REPLAY property={} result=violation sig={}", id, v.sig);
            crate::out!("  clause: {}", v.clause);
            crate::out!("  detail: {}", v.detail);
        }
        crate::out!("VIOLATION property={} replay={}", id, path.display());
        std::process::exit(1);
    }

    let findings = load_findings(&cli.root);
    let open: Vec<&Finding> = findings
        .iter()
        .filter(|f| f.open && f.property == id)
        .collect();

    let mut st = Stats::new();
    let mut confirmed: Vec<(String, String)> = Vec::new();
    let mut stale: Vec<String> = Vec::new();

    // 1. re-run the pinned witness of every open finding of this property
    for f in &open {
        let path = cli.root.join(&f.witness);
        match load_case(&path) {
            Ok(case) => {
                let vs = c.replay(&cli, &case);
                let mut hit = false;
                for v in vs {
                    if v.sig == f.sig {
                        hit = true;
                    } else {
                        st.violation(v);
                    }
                }
                if hit {
                    confirmed.push((f.sig.clone(), f.what.clone()));
                } else {
                    stale.push(f.sig.clone());
                }
            }
            Err(e) => {
                crate::out!("HARNESS-ERROR property={} known-finding witness: {}", id, e);
                std::process::exit(2);
            }
        }
    }

    // 2. the exploration
    c.explore(&cli, &mut st);

    // 3. classify
    let open_sigs: HashSet<&str> = open.iter().map(|f| f.sig.as_str()).collect();
    let mut known_hits: BTreeMap<String, u64> = BTreeMap::new();
    let mut fresh: BTreeMap<String, Vec<&Violation>> = BTreeMap::new();
    let all_violations = std::mem::take(&mut st.violations);
    for v in &all_violations {
        if open_sigs.contains(v.sig.as_str()) {
            *known_hits.entry(v.sig.clone()).or_insert(0) += 1;
        } else {
            fresh.entry(v.sig.clone()).or_default().push(v);
        }
    }

    for (sig, what) in &confirmed {
        crate::out!("KNOWN-FINDING: property={} {} [sig={}]", id, what, sig);
    }
    for sig in &stale {
        crate::out!(
            "STALE-FINDING: property={} sig={} (pinned witness no longer violates; entry suppresses nothing else)",
            id,
            sig
        );
    }

    let mut replay_paths = Vec::new();
    let mut printed = 0;
    for (sig, vs) in &fresh {
        // smallest witness of each signature
        let v = vs
            .iter()
            .min_by_key(|v| v.case.to_string().len())
            .unwrap();
        let p = write_replay(&cli.root, id, &cli, v);
        if printed < 25 {
            crate::out!("VIOLATION property={} replay={}", id, p.display());
            crate::out!("  sig: {}", sig);
            crate::out!("  clause: {}", v.clause);
            let d: String = v.detail.chars().take(600).collect();
            crate::out!("  detail: {}", d);
            printed += 1;
        }
        replay_paths.push(p.display().to_string());
    }

    if st.evaluations == 0 {
        st.inconclusive("no executions were run");
    } else if st.distinct.len() < 2 {
        st.inconclusive("fewer than 2 distinct non-trivial cases were observed");
    }

    // 4. evidence
    let wall = cli.start.elapsed().as_secs_f64();
    let mut coverage = serde_json::Map::new();
    coverage.insert("evaluations".into(), json!(st.evaluations));
    coverage.insert("distinct_nontrivial".into(), json!(st.distinct.len()));
    let mut rule = c.rule();
    if st.distinct_saturated {
        rule.push_str(&format!(
            " [distinct counter saturated at {}: the number is a lower bound]",
            DISTINCT_CAP
        ));
    }
    coverage.insert("rule".into(), json!(rule));
    if st.samples.is_empty() {
        st.samples.push(json!("no sample recorded"));
    }
    coverage.insert("samples".into(), json!(st.samples));
    if !st.exhaustive.is_empty() {
        coverage.insert("exhaustive".into(), json!(true));
        coverage.insert("exhaustive_subspaces".into(), json!(st.exhaustive));
    }
    let counters: BTreeMap<&String, &u64> = st
        .counters
        .iter()
        .filter(|(k, _)| !k.starts_with("violations_by_sig::"))
        .collect();
    coverage.insert("observed".into(), json!(counters));
    coverage.insert(
        "known_findings_confirmed".into(),
        json!(confirmed.iter().map(|(s, _)| s).collect::<Vec<_>>()),
    );
    coverage.insert("known_finding_hits_in_exploration".into(), json!(known_hits));
    coverage.insert("stale_findings".into(), json!(stale));
    coverage.insert("inconclusive".into(), json!(st.inconclusive));
    coverage.insert("new_violation_signatures".into(), json!(fresh.keys().collect::<Vec<_>>()));
    coverage.insert("replays".into(), json!(replay_paths));
    if !st.notes.is_empty() {
        coverage.insert("notes".into(), json!(st.notes));
    }
    coverage.insert("threads".into(), json!(cli.threads));
    let ev = json!({
        "property_id": id,
        "tier": cli.tier.name(),
        "seed": cli.seed as i64,
        "level": c.level(),
        "coverage": Json::Object(coverage),
        "assumptions": c.assumptions(),
        "wall_s": (wall * 100.0).round() / 100.0,
        "violations": fresh.values().map(|v| v.len()).sum::<usize>(),
    });
    let evdir = cli.root.join("evidence");
    let _ = std::fs::create_dir_all(&evdir);
    let evpath = evdir.join(format!("{}.json", id));
    if let Err(e) = std::fs::write(&evpath, serde_json::to_string_pretty(&ev).unwrap()) {
        crate::out!("HARNESS-ERROR property={} cannot write evidence: {}", id, e);
        std::process::exit(2);
    }

    let verdict = if !fresh.is_empty() {
        "violated"
    } else if !st.inconclusive.is_empty() {
        "inconclusive"
    } else {
        "held-on-observed"
    };
    crate::out!(
        "SUMMARY property={} tier={} seed={} verdict={} evaluations={} distinct_nontrivial={} known_findings={} new_signatures={} wall_s={:.1}",
        id,
        cli.tier.name(),
        cli.seed,
        verdict,
        st.evaluations,
        st.distinct.len(),
        confirmed.len(),
        fresh.len(),
        wall
    );
    if cli.verbose {
        for (k, v) in &st.counters {
            crate::out!("  observed {} = {}", k, v);
        }
    }
    if !fresh.is_empty() {
        std::process::exit(1);
    }
    if !st.inconclusive.is_empty() {
        for w in &st.inconclusive {
            crate::out!("INCONCLUSIVE property={} {}", id, w);
        }
        std::process::exit(3);
    }
    std::process::exit(0);
}

/// Run `f` on `n` shards in parallel (own PRNG stream and own Stats each) and merge.
pub fn shards<F>(cli: &Cli, n: usize, st: &mut Stats, f: F)
where
    F: Fn(usize, &mut Rng, &mut Stats) + Sync,
{
    let results: Vec<Stats> = std::thread::scope(|s| {
        let mut hs = Vec::new();
        for i in 0..n {
            let f = &f;
            let seed = cli.seed;
            let b = std::thread::Builder::new()
                .name(format!("shard{}", i))
                .stack_size(64 << 20);
            hs.push(
                b.spawn_scoped(s, move || {
                    let mut rng = Rng::derive(seed, i as u64 + 1);
                    let mut st = Stats::new();
                    match crate::pan::catch_frames(|| f(i, &mut rng, &mut st)) {
                        Ok(()) => {}
                        Err(p) => st.inconclusive(format!(
                            "harness shard {} panicked outside a monitored call: {} at {}:{} [{}]",
                            i, p.msg, p.file, p.line, p.frame
                        )),
                    }
                    st
                })
                .expect("spawn shard"),
            );
        }
        hs.into_iter()
            .map(|h| h.join().unwrap_or_else(|_| {
                let mut s = Stats::new();
                s.inconclusive("a shard thread died");
                s
            }))
            .collect()
    });
    for r in results {
        st.merge(r);
    }
}

/// Generic delta-debugging over a list: tries to drop chunks while `fails` stays true.
pub fn shrink_list<T: Clone>(items: &[T], fails: &mut dyn FnMut(&[T]) -> bool) -> Vec<T> {
    let mut cur: Vec<T> = items.to_vec();
    let mut chunk = (cur.len() / 2).max(1);
    let mut budget = 400usize;
    while chunk >= 1 && !cur.is_empty() && budget > 0 {
        let mut i = 0;
        let mut progressed = false;
        while i < cur.len() && budget > 0 {
            let end = (i + chunk).min(cur.len());
            let mut cand = cur.clone();
            cand.drain(i..end);
            budget -= 1;
            if fails(&cand) {
                cur = cand;
                progressed = true;
            } else {
                i += chunk;
            }
        }
        if !progressed {
            if chunk == 1 {
                break;
            }
            chunk /= 2;
        }
    }
    cur
}
