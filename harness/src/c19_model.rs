//! C19 — shared by `harness/src/bin/c19.rs` and `miri/src/bin/c19.rs`: rule-set generator for the
//! typed core of GRL, three-valued reference evaluator, construction of the real rules
//! (programmatically or from generated GRL text through the real parser), and the differential
//! monitor `execute_parallel` (parallelism on, repeated under perturbed schedules) vs. the
//! engine's own one-by-one path (parallelism off) vs. the reference verdicts.
//!
//! The including crate root must provide `Rng` as `super::Rng`.
//!
//! Soundness notes
//!  * `Facts` is shared (not copied) between the workers, so a rule set whose actions write fields
//!    that conditions read would have legitimately schedule-dependent verdicts. Generated actions
//!    write only `Out.*` keys, which no condition reads.
//!  * The order of `execution_contexts` inside one salience level is not constrained; only
//!    "a rule of lower salience never precedes a rule of higher salience".
//!  * A leaf that reads a field absent from the facts has reference value Undefined (Kleene
//!    logic above it); only rules whose reference value is defined are compared with the reference.

#![allow(dead_code)]

use super::Rng;
use rust_rule_engine::engine::parallel::{ParallelConfig, ParallelRuleEngine};
use rust_rule_engine::types::LogicalOperator;
use rust_rule_engine::{ActionType, Condition, ConditionGroup, Facts, GRLParser, KnowledgeBase, Operator, Rule, Value};
use serde_json::{json, Value as Json};
use std::collections::{BTreeMap, HashMap};
use std::panic::{catch_unwind, AssertUnwindSafe};
use std::sync::atomic::{AtomicU32, Ordering};
use std::sync::Arc;

#[derive(Clone, Debug, PartialEq)]
pub enum Lit {
    I(i64),
    S(String),
    B(bool),
}

impl Lit {
    fn value(&self) -> Value {
        match self {
            Lit::I(i) => Value::Integer(*i),
            Lit::S(s) => Value::String(s.clone()),
            Lit::B(b) => Value::Boolean(*b),
        }
    }
    fn grl(&self) -> String {
        match self {
            Lit::I(i) => i.to_string(),
            Lit::S(s) => format!("\"{}\"", s),
            Lit::B(b) => b.to_string(),
        }
    }
    fn to_json(&self) -> Json {
        match self {
            Lit::I(i) => json!(i),
            Lit::S(s) => json!(s),
            Lit::B(b) => json!(b),
        }
    }
    fn from_json(j: &Json) -> Option<Lit> {
        Some(match j {
            Json::Number(n) => Lit::I(n.as_i64()?),
            Json::String(s) => Lit::S(s.clone()),
            Json::Bool(b) => Lit::B(*b),
            _ => return None,
        })
    }
}

#[derive(Clone, Copy, Debug, PartialEq)]
pub enum COp {
    Eq,
    Ne,
    Lt,
    Le,
    Gt,
    Ge,
    Contains,
    StartsWith,
    EndsWith,
}

impl COp {
    fn text(&self) -> &'static str {
        match self {
            COp::Eq => "==",
            COp::Ne => "!=",
            COp::Lt => "<",
            COp::Le => "<=",
            COp::Gt => ">",
            COp::Ge => ">=",
            COp::Contains => "contains",
            COp::StartsWith => "startsWith",
            COp::EndsWith => "endsWith",
        }
    }
    fn parse(s: &str) -> Option<COp> {
        [COp::Eq, COp::Ne, COp::Lt, COp::Le, COp::Gt, COp::Ge, COp::Contains, COp::StartsWith, COp::EndsWith]
            .into_iter()
            .find(|o| o.text() == s)
    }
    fn operator(&self) -> Operator {
        match self {
            COp::Eq => Operator::Equal,
            COp::Ne => Operator::NotEqual,
            COp::Lt => Operator::LessThan,
            COp::Le => Operator::LessThanOrEqual,
            COp::Gt => Operator::GreaterThan,
            COp::Ge => Operator::GreaterThanOrEqual,
            COp::Contains => Operator::Contains,
            COp::StartsWith => Operator::StartsWith,
            COp::EndsWith => Operator::EndsWith,
        }
    }
}

#[derive(Clone, Debug, PartialEq)]
pub enum Cond {
    Leaf { field: String, op: COp, lit: Lit },
    And(Box<Cond>, Box<Cond>),
    Or(Box<Cond>, Box<Cond>),
    Not(Box<Cond>),
}

impl Cond {
    fn to_json(&self) -> Json {
        // long left-leaning chains and towers of `!` are written flat (JSON readers limit nesting)
        fn chain<'a>(c: &'a Cond, and: bool, out: &mut Vec<&'a Cond>) {
            match (c, and) {
                (Cond::And(a, b), true) | (Cond::Or(a, b), false) => {
                    chain(a, and, out);
                    out.push(b);
                }
                _ => out.push(c),
            }
        }
        match self {
            Cond::And(..) | Cond::Or(..) => {
                let and = matches!(self, Cond::And(..));
                let mut items = Vec::new();
                chain(self, and, &mut items);
                if items.len() >= 8 {
                    return json!({ if and { "and_chain" } else { "or_chain" }: items.iter().map(|x| x.to_json()).collect::<Vec<_>>() });
                }
            }
            Cond::Not(_) => {
                let mut k = 0u64;
                let mut cur = self;
                while let Cond::Not(a) = cur {
                    k += 1;
                    cur = a;
                }
                if k >= 4 {
                    return json!({"not_tower": [k, cur.to_json()]});
                }
            }
            _ => {}
        }
        match self {
            Cond::Leaf { field, op, lit } => json!({"leaf": [field, op.text(), lit.to_json()]}),
            Cond::And(a, b) => json!({"and": [a.to_json(), b.to_json()]}),
            Cond::Or(a, b) => json!({"or": [a.to_json(), b.to_json()]}),
            Cond::Not(a) => json!({"not": a.to_json()}),
        }
    }
    fn from_json(j: &Json) -> Option<Cond> {
        for (key, and) in [("and_chain", true), ("or_chain", false)] {
            if let Some(items) = j.get(key).and_then(|v| v.as_array()) {
                let mut it = items.iter();
                let mut c = Cond::from_json(it.next()?)?;
                for x in it {
                    let r = Cond::from_json(x)?;
                    c = if and { Cond::And(Box::new(c), Box::new(r)) } else { Cond::Or(Box::new(c), Box::new(r)) };
                }
                return Some(c);
            }
        }
        if let Some(t) = j.get("not_tower") {
            let mut c = Cond::from_json(&t[1])?;
            for _ in 0..t[0].as_u64()? {
                c = Cond::Not(Box::new(c));
            }
            return Some(c);
        }
        if let Some(l) = j.get("leaf") {
            return Some(Cond::Leaf {
                field: l[0].as_str()?.to_string(),
                op: COp::parse(l[1].as_str()?)?,
                lit: Lit::from_json(&l[2])?,
            });
        }
        if let Some(a) = j.get("and") {
            return Some(Cond::And(Box::new(Cond::from_json(&a[0])?), Box::new(Cond::from_json(&a[1])?)));
        }
        if let Some(a) = j.get("or") {
            return Some(Cond::Or(Box::new(Cond::from_json(&a[0])?), Box::new(Cond::from_json(&a[1])?)));
        }
        if let Some(a) = j.get("not") {
            return Some(Cond::Not(Box::new(Cond::from_json(a)?)));
        }
        None
    }
    fn grl(&self) -> String {
        match self {
            Cond::Leaf { field, op, lit } => format!("{} {} {}", field, op.text(), lit.grl()),
            Cond::And(a, b) => format!("({} && {})", a.grl(), b.grl()),
            Cond::Or(a, b) => format!("({} || {})", a.grl(), b.grl()),
            Cond::Not(a) => format!("!({})", a.grl_bare()),
        }
    }
    fn grl_bare(&self) -> String {
        let s = self.grl();
        if s.starts_with('(') && s.ends_with(')') && !matches!(self, Cond::Leaf { .. } | Cond::Not(_)) {
            s[1..s.len() - 1].to_string()
        } else {
            s
        }
    }
    fn group(&self) -> ConditionGroup {
        match self {
            Cond::Leaf { field, op, lit } => ConditionGroup::single(Condition::new(field.clone(), op.operator(), lit.value())),
            Cond::And(a, b) => ConditionGroup::and(a.group(), b.group()),
            Cond::Or(a, b) => ConditionGroup::or(a.group(), b.group()),
            Cond::Not(a) => ConditionGroup::not(a.group()),
        }
    }
    /// Does the parsed condition tree equal this one (shape, fields, operators, literal values)?
    fn same_as(&self, g: &ConditionGroup) -> bool {
        match (self, g) {
            (Cond::Leaf { field, op, lit }, ConditionGroup::Single(c)) => {
                matches!(&c.expression, rust_rule_engine::engine::rule::ConditionExpression::Field(f) if f == field)
                    && c.operator == op.operator()
                    && c.value == lit.value()
            }
            (Cond::And(a, b), ConditionGroup::Compound { left, operator: LogicalOperator::And, right }) => a.same_as(left) && b.same_as(right),
            (Cond::Or(a, b), ConditionGroup::Compound { left, operator: LogicalOperator::Or, right }) => a.same_as(left) && b.same_as(right),
            (Cond::Not(a), ConditionGroup::Not(inner)) => a.same_as(inner),
            _ => false,
        }
    }
    /// Kleene three-valued reference value on the facts: None = Undefined.
    pub fn eval(&self, facts: &BTreeMap<String, Lit>) -> Option<bool> {
        match self {
            Cond::Leaf { field, op, lit } => {
                let v = facts.get(field)?;
                match (v, lit) {
                    (Lit::I(a), Lit::I(b)) => Some(match op {
                        COp::Eq => a == b,
                        COp::Ne => a != b,
                        COp::Lt => a < b,
                        COp::Le => a <= b,
                        COp::Gt => a > b,
                        COp::Ge => a >= b,
                        _ => return None,
                    }),
                    (Lit::S(a), Lit::S(b)) => Some(match op {
                        COp::Eq => a == b,
                        COp::Ne => a != b,
                        COp::Contains => a.contains(b.as_str()),
                        COp::StartsWith => a.starts_with(b.as_str()),
                        COp::EndsWith => a.ends_with(b.as_str()),
                        _ => return None,
                    }),
                    (Lit::B(a), Lit::B(b)) => Some(match op {
                        COp::Eq => a == b,
                        COp::Ne => a != b,
                        _ => return None,
                    }),
                    _ => None,
                }
            }
            Cond::And(a, b) => match (a.eval(facts), b.eval(facts)) {
                (Some(false), _) | (_, Some(false)) => Some(false),
                (Some(true), Some(true)) => Some(true),
                _ => None,
            },
            Cond::Or(a, b) => match (a.eval(facts), b.eval(facts)) {
                (Some(true), _) | (_, Some(true)) => Some(true),
                (Some(false), Some(false)) => Some(false),
                _ => None,
            },
            Cond::Not(a) => a.eval(facts).map(|v| !v),
        }
    }
}

#[derive(Clone, Debug, PartialEq)]
pub enum Act {
    /// `Out.<key> = <lit>`
    Set(String, Lit),
    Log,
    /// custom function `mark_<rule>`: counts its runs and writes `Out.mark_<rule>` on the shared facts
    Mark,
}

#[derive(Clone, Debug, PartialEq)]
pub struct RuleSpec {
    pub name: String,
    pub salience: i32,
    pub enabled: bool,
    pub cond: Cond,
    pub actions: Vec<Act>,
}

#[derive(Clone, Debug, PartialEq)]
pub struct CaseSpec {
    pub rules: Vec<RuleSpec>,
    /// dotted path (`F.i0`) or flat key (`gi`) -> value; absent = missing field
    pub facts: BTreeMap<String, Lit>,
    pub max_threads: usize,
    pub min_rules_per_thread: usize,
    /// how many times the parallel path is executed (each under a different schedule)
    pub schedules: u32,
    /// build the rules from generated GRL text through GRLParser instead of Rule::new
    pub via_grl: bool,
    /// the ParallelRuleEngine of every call first executes a DIFFERENT knowledge base of the same
    /// name built by the same number of add_rule calls (the same rule names carrying the next
    /// rule's condition, actions and salience, enabled flags inverted), then the real one
    pub engine_reused: bool,
    /// flat facts whose NAME is a dotted path of `facts` (what `Facts::set("F.i0", v)` stores),
    /// each with a value different from the object field's. A reference `F.i0` means the field of
    /// the object fact `F` when there is one (Facts::get_nested; the flat name is the fallback),
    /// so these must change no verdict.
    pub flat_decoys: BTreeMap<String, Lit>,
    /// with `engine_reused`: the decoy knowledge base ends with one more rule (always true, same
    /// salience as the first rule) whose action panics inside the worker that runs it. Whatever
    /// that call returns, the next call on the same engine is judged like any other.
    pub decoy_panics: bool,
}

impl CaseSpec {
    pub fn to_json(&self) -> Json {
        json!({
            "rules": self.rules.iter().map(|r| json!({
                "name": r.name, "salience": r.salience, "enabled": r.enabled, "when": r.cond.to_json(),
                "then": r.actions.iter().map(|a| match a {
                    Act::Set(k, l) => json!({"set": [k, l.to_json()]}),
                    Act::Log => json!("log"),
                    Act::Mark => json!("mark"),
                }).collect::<Vec<_>>(),
            })).collect::<Vec<_>>(),
            "facts": self.facts.iter().map(|(k, v)| (k.clone(), v.to_json())).collect::<serde_json::Map<String, Json>>(),
            "max_threads": self.max_threads,
            "min_rules_per_thread": self.min_rules_per_thread,
            "schedules": self.schedules,
            "engine_first_ran_a_decoy_knowledge_base": self.engine_reused,
            "via_grl": self.via_grl,
            "decoy_run_ends_in_a_panicking_action": self.decoy_panics,
            "flat_facts_named_like_a_dotted_path": self.flat_decoys.iter().map(|(k, v)| (k.clone(), v.to_json())).collect::<serde_json::Map<String, Json>>(),
        })
    }
    pub fn from_json(j: &Json) -> Option<CaseSpec> {
        let mut rules = Vec::new();
        for r in j["rules"].as_array()? {
            let mut actions = Vec::new();
            for a in r["then"].as_array()? {
                actions.push(match a {
                    Json::String(s) if s == "log" => Act::Log,
                    Json::String(s) if s == "mark" => Act::Mark,
                    o => Act::Set(o["set"][0].as_str()?.to_string(), Lit::from_json(&o["set"][1])?),
                });
            }
            rules.push(RuleSpec {
                name: r["name"].as_str()?.to_string(),
                salience: r["salience"].as_i64()? as i32,
                enabled: r["enabled"].as_bool()?,
                cond: Cond::from_json(&r["when"])?,
                actions,
            });
        }
        let mut facts = BTreeMap::new();
        for (k, v) in j["facts"].as_object()? {
            facts.insert(k.clone(), Lit::from_json(v)?);
        }
        Some(CaseSpec {
            rules,
            facts,
            max_threads: j["max_threads"].as_u64()? as usize,
            min_rules_per_thread: j["min_rules_per_thread"].as_u64()? as usize,
            schedules: j["schedules"].as_u64()? as u32,
            engine_reused: j["engine_first_ran_a_decoy_knowledge_base"].as_bool().unwrap_or(false),
            via_grl: j["via_grl"].as_bool().unwrap_or(false),
            flat_decoys: j["flat_facts_named_like_a_dotted_path"]
                .as_object()
                .map(|o| o.iter().filter_map(|(k, v)| Some((k.clone(), Lit::from_json(v)?))).collect())
                .unwrap_or_default(),
            decoy_panics: j["decoy_run_ends_in_a_panicking_action"].as_bool().unwrap_or(false),
        })
    }
    pub fn grl_text(&self) -> String {
        let mut s = String::new();
        for r in &self.rules {
            s.push_str(&format!("rule \"{}\" salience {} {{\n    when\n        {}\n    then\n", r.name, r.salience, r.cond.grl_bare()));
            for a in &r.actions {
                match a {
                    Act::Set(k, l) => s.push_str(&format!("        {} = {};\n", k, l.grl())),
                    Act::Log => s.push_str(&format!("        Log(\"{}\");\n", r.name)),
                    Act::Mark => s.push_str(&format!("        mark_{}();\n", r.name)),
                }
            }
            s.push_str("}\n\n");
        }
        s
    }
}

pub const INT_FIELDS: [&str; 5] = ["F.i0", "F.i1", "F.i2", "G.n", "gi"];
pub const STR_FIELDS: [&str; 4] = ["F.s0", "F.s1", "G.t", "gs"];
pub const BOOL_FIELDS: [&str; 3] = ["F.b0", "F.b1", "gb"];
const WORDS: [&str; 8] = ["alpha", "alphabet", "beta", "bet", "gamma", "al", "ta", "mm"];

fn gen_leaf(rng: &mut Rng) -> Cond {
    match rng.below(3) {
        0 => Cond::Leaf {
            field: rng.pick(&INT_FIELDS).to_string(),
            op: *rng.pick(&[COp::Eq, COp::Ne, COp::Lt, COp::Le, COp::Gt, COp::Ge]),
            lit: Lit::I(rng.range(-2, 9)),
        },
        1 => Cond::Leaf {
            field: rng.pick(&STR_FIELDS).to_string(),
            op: *rng.pick(&[COp::Eq, COp::Ne, COp::Contains, COp::StartsWith, COp::EndsWith]),
            lit: Lit::S(rng.pick(&WORDS).to_string()),
        },
        _ => Cond::Leaf {
            field: rng.pick(&BOOL_FIELDS).to_string(),
            op: *rng.pick(&[COp::Eq, COp::Ne]),
            lit: Lit::B(rng.bool()),
        },
    }
}

fn gen_cond(rng: &mut Rng, depth: usize, allow_not: bool) -> Cond {
    if depth == 0 || rng.chance(2, 5) {
        return gen_leaf(rng);
    }
    match rng.below(if allow_not { 9 } else { 8 }) {
        0..=3 => Cond::And(Box::new(gen_cond(rng, depth - 1, allow_not)), Box::new(gen_cond(rng, depth - 1, allow_not))),
        4..=7 => Cond::Or(Box::new(gen_cond(rng, depth - 1, allow_not)), Box::new(gen_cond(rng, depth - 1, allow_not))),
        _ => Cond::Not(Box::new(gen_cond(rng, depth - 1, allow_not))),
    }
}

pub fn gen_facts(rng: &mut Rng) -> BTreeMap<String, Lit> {
    let mut f = BTreeMap::new();
    let missing_rate = *rng.pick(&[0u32, 0, 1, 3]);
    for k in INT_FIELDS {
        if !rng.chance(missing_rate, 12) {
            f.insert(k.to_string(), Lit::I(rng.range(-2, 9)));
        }
    }
    for k in STR_FIELDS {
        if !rng.chance(missing_rate, 12) {
            f.insert(k.to_string(), Lit::S(rng.pick(&WORDS[..5]).to_string()));
        }
    }
    for k in BOOL_FIELDS {
        if !rng.chance(missing_rate, 12) {
            f.insert(k.to_string(), Lit::B(rng.bool()));
        }
    }
    f
}

/// A WIDE case: 65..=200 rules on one or two salience levels and a thread limit of 32..=256
/// (more chunks and more worker threads per level than any small configuration has).
pub fn gen_wide_case(rng: &mut Rng, schedules: u32) -> CaseSpec {
    let n = 65 + rng.below(136);
    let max_threads = *rng.pick(&[32usize, 64, 65, 100, 128, 200, 256]);
    let min_rules = 1 + rng.below(2);
    let mut c = gen_case(rng, n, max_threads, min_rules, schedules, false, true);
    let levels = *rng.pick(&[1usize, 1, 2]);
    for (i, r) in c.rules.iter_mut().enumerate() {
        r.salience = if levels == 1 { 5 } else { [5, 0][i % 2] };
        if !r.enabled && i % 3 != 0 {
            r.enabled = true;
        }
    }
    c
}

/// A case whose rules have LONG conditions: left-leaning chains of 12..=96 leaves under && (a flat
/// `a && b && c ...` as the parser builds it), some under ||, some wrapped in towers of `!`.
/// All rules on one salience level, so they are evaluated side by side by the workers.
pub fn gen_deep_case(rng: &mut Rng, schedules: u32) -> CaseSpec {
    let n_rules = 2 + rng.below(15);
    let facts = gen_facts(rng);
    let mut rules = Vec::new();
    for i in 0..n_rules {
        let terms = *rng.pick(&[12usize, 16, 24, 32, 48, 64, 80, 96]);
        let use_or = rng.chance(1, 4);
        // make most chains TRUE on the facts (a chain that is false at its first leaf proves nothing):
        // leaves are taken from a pool of generated leaves that hold (for &&) / fail (for ||)
        let want = !use_or;
        let mut pool: Vec<Cond> = Vec::new();
        let mut tries = 0;
        while pool.len() < 6 && tries < 400 {
            tries += 1;
            let l = gen_leaf(rng);
            if l.eval(&facts) == Some(want) {
                pool.push(l);
            }
        }
        if pool.is_empty() {
            pool.push(gen_leaf(rng));
        }
        let mut c = rng.pick(&pool).clone();
        for k in 1..terms {
            // the last leaf of one chain in three is a free one: the verdict then hangs on the
            // deepest evaluation
            let leaf = if k + 1 == terms && rng.chance(1, 3) { gen_leaf(rng) } else { rng.pick(&pool).clone() };
            c = if use_or { Cond::Or(Box::new(c), Box::new(leaf)) } else { Cond::And(Box::new(c), Box::new(leaf)) };
        }
        if rng.chance(1, 6) {
            for _ in 0..2 * (1 + rng.below(12)) {
                c = Cond::Not(Box::new(c));
            }
        }
        let mut actions = vec![Act::Set(format!("Out.r{:02}", i), Lit::I(1))];
        if rng.bool() {
            actions.push(Act::Mark);
        }
        rules.push(RuleSpec { name: format!("R{:02}", i), salience: 5, enabled: true, cond: c, actions });
    }
    CaseSpec { rules, facts, max_threads: *rng.pick(&[1usize, 2, 3, 4, 8, 16, 16]), min_rules_per_thread: 1 + rng.below(2), schedules, via_grl: false, engine_reused: false, flat_decoys: BTreeMap::new(), decoy_panics: false }
}

/// Random case: `n_rules` rules with salience ties. `small` = Miri-sized (no GRL text, shallow).
pub fn gen_case(rng: &mut Rng, n_rules: usize, max_threads: usize, min_rules: usize, schedules: u32, allow_grl: bool, small: bool) -> CaseSpec {
    let via_grl = allow_grl && rng.chance(1, 3);
    let sal_pool: Vec<i32> = if via_grl {
        match rng.below(3) {
            0 => vec![5],
            1 => vec![0, 5, 5, 10],
            _ => vec![0, 1, 2, 3, 5, 5, 5, 100],
        }
    } else {
        match rng.below(4) {
            0 => vec![0],
            1 => vec![-3, 0, 0, 5, 5, 5],
            2 => vec![i32::MIN, -1, 0, 0, 0, 7, 7, i32::MAX],
            _ => vec![1, 2],
        }
    };
    let depth = if small { 1 } else { 3 };
    let mut rules = Vec::new();
    for i in 0..n_rules {
        let name = format!("R{:02}", i);
        let mut actions = Vec::new();
        if rng.chance(2, 3) {
            actions.push(Act::Set(format!("Out.r{:02}", i), Lit::I(rng.range(0, 9))));
        }
        if !small && rng.chance(1, 6) {
            actions.push(Act::Log);
        }
        if rng.chance(1, 2) {
            actions.push(Act::Mark);
        }
        if via_grl && actions.is_empty() {
            // the grammar has no empty `then` block
            actions.push(Act::Set(format!("Out.r{:02}", i), Lit::B(true)));
        }
        let salience = *rng.pick(&sal_pool);
        let enabled = !rng.chance(1, 8);
        let allow_not = !via_grl || rng.chance(1, 2);
        rules.push(RuleSpec { name, salience, enabled, cond: gen_cond(rng, depth, allow_not), actions });
    }
    let engine_reused = rng.chance(1, 4);
    let facts = gen_facts(rng);
    let mut flat_decoys = BTreeMap::new();
    if rng.chance(1, 6) {
        for (k, v) in &facts {
            if k.contains('.') && rng.chance(2, 3) {
                let other = match v {
                    Lit::I(i) => Lit::I(if rng.bool() { i + 1 + rng.range(0, 9) } else { i - 1 - rng.range(0, 9) }),
                    Lit::S(w) => Lit::S(WORDS.iter().find(|x| **x != w.as_str()).unwrap_or(&"zz").to_string()),
                    Lit::B(b) => Lit::B(!b),
                };
                flat_decoys.insert(k.clone(), other);
            }
        }
    }
    let decoy_panics = engine_reused && rng.chance(1, 3);
    CaseSpec { rules, facts, max_threads, min_rules_per_thread: min_rules, schedules, via_grl, engine_reused, flat_decoys, decoy_panics }
}

// ------------------------------------------------------------------------------------------------
// Building the real objects
// ------------------------------------------------------------------------------------------------

pub enum Built {
    Rules(Vec<Rule>),
    /// the parser did not return the rules that were written (C04's subject): case skipped
    ParserDisagrees(String),
}

pub fn build_rules(c: &CaseSpec) -> Built {
    if c.via_grl {
        let text = c.grl_text();
        let parsed = match catch_unwind(AssertUnwindSafe(|| GRLParser::parse_rules(&text))) {
            Ok(Ok(r)) => r,
            Ok(Err(e)) => return Built::ParserDisagrees(format!("parse error: {:?}", e)),
            Err(_) => return Built::ParserDisagrees("parser panicked".into()),
        };
        if parsed.len() != c.rules.len() {
            return Built::ParserDisagrees(format!("{} rules written, {} parsed", c.rules.len(), parsed.len()));
        }
        let mut out = Vec::new();
        for (spec, mut r) in c.rules.iter().zip(parsed) {
            if r.name != spec.name || r.salience != spec.salience || !spec.cond.same_as(&r.conditions) || r.actions.len() != spec.actions.len() {
                return Built::ParserDisagrees(format!("rule {} parsed differently from what was written", spec.name));
            }
            r.enabled = spec.enabled;
            out.push(r);
        }
        Built::Rules(out)
    } else {
        Built::Rules(
            c.rules
                .iter()
                .map(|s| {
                    let actions = s
                        .actions
                        .iter()
                        .map(|a| match a {
                            Act::Set(k, l) => ActionType::Set { field: k.clone(), value: l.value() },
                            Act::Log => ActionType::Log { message: s.name.clone() },
                            Act::Mark => ActionType::Custom { action_type: format!("mark_{}", s.name), params: HashMap::new() },
                        })
                        .collect();
                    let mut r = Rule::new(s.name.clone(), s.cond.group(), actions).with_salience(s.salience);
                    r.enabled = s.enabled;
                    r
                })
                .collect(),
        )
    }
}

pub fn build_facts(c: &CaseSpec) -> Facts {
    let facts = Facts::new();
    let mut objects: BTreeMap<String, Vec<(String, Value)>> = BTreeMap::new();
    for (k, v) in &c.facts {
        match k.split_once('.') {
            Some((o, f)) => objects.entry(o.to_string()).or_default().push((f.to_string(), v.value())),
            None => {
                let _ = facts.add_value(k, v.value());
            }
        }
    }
    for (o, fields) in objects {
        let _ = facts.add_value(&o, Facts::create_object(fields));
    }
    for (k, v) in &c.flat_decoys {
        facts.set(k, v.value());
    }
    facts
}

#[derive(Clone, Debug)]
pub struct RunOut {
    /// (rule name, salience, fired) in the order of `execution_contexts`
    pub contexts: Vec<(String, i32, bool)>,
    pub evaluated: usize,
    pub fired: usize,
    /// runs of each rule's `mark_<rule>` action, by rule index
    pub marks: Vec<u32>,
}

pub enum RunRes {
    Done(RunOut),
    Error(String),
    Panicked(String),
}

/// One call of the real `execute_parallel` on a fresh knowledge base, fresh facts, fresh engine
/// (or, with `engine_reused`, an engine that has just executed a decoy knowledge base).
pub fn run_once(c: &CaseSpec, rules: &[Rule], parallel: bool) -> RunRes {
    let r = catch_unwind(AssertUnwindSafe(|| {
        let kb = KnowledgeBase::new("c19");
        for r in rules {
            if let Err(e) = kb.add_rule(r.clone()) {
                return RunRes::Error(format!("add_rule: {:?}", e));
            }
        }
        let facts = build_facts(c);
        let mut engine = ParallelRuleEngine::new(ParallelConfig {
            enabled: parallel,
            max_threads: c.max_threads,
            min_rules_per_thread: c.min_rules_per_thread,
            dependency_analysis: false,
        });
        let marks: Arc<Vec<AtomicU32>> = Arc::new((0..c.rules.len()).map(|_| AtomicU32::new(0)).collect());
        for (i, s) in c.rules.iter().enumerate() {
            if s.actions.contains(&Act::Mark) {
                let m = Arc::clone(&marks);
                let key = format!("Out.mark_{}", s.name);
                // in cases of 4, 8, 12 … rules the marking action of the second rule reports an error
                // after doing its work (both paths get the same function)
                let fails = i == 1 && c.rules.len() % 4 == 0;
                engine.register_function(&format!("mark_{}", s.name), move |_args, facts| {
                    m[i].fetch_add(1, Ordering::SeqCst);
                    facts.set(&key, Value::Integer(1));
                    if fails {
                        return Err(rust_rule_engine::RuleEngineError::EvaluationError { message: "marking action reports an error".into() });
                    }
                    Ok(Value::Null)
                });
            }
        }
        if c.engine_reused && !rules.is_empty() {
            let decoy = KnowledgeBase::new("c19");
            for (i, r) in rules.iter().enumerate() {
                let mut d = rules[(i + 1) % rules.len()].clone();
                d.name = r.name.clone();
                d.enabled = !r.enabled;
                if let Err(e) = decoy.add_rule(d) {
                    return RunRes::Error(format!("add_rule (decoy): {:?}", e));
                }
            }
            if c.decoy_panics {
                engine.register_function("boom", move |_args, _facts| panic!("decoy action panics"));
                let boom = Rule::new(
                    "Zboom".to_string(),
                    ConditionGroup::single(Condition::new("Boom.on".to_string(), Operator::Equal, Value::Boolean(true))),
                    vec![ActionType::Custom { action_type: "boom".to_string(), params: HashMap::new() }],
                )
                .with_salience(rules[0].salience);
                if let Err(e) = decoy.add_rule(boom) {
                    return RunRes::Error(format!("add_rule (decoy): {:?}", e));
                }
            }
            let decoy_facts = build_facts(c);
            if c.decoy_panics {
                let _ = decoy_facts.add_value("Boom", Facts::create_object(vec![("on".to_string(), Value::Boolean(true))]));
            }
            // (the decoy call may fail or unwind: its outcome is not judged)
            let _ = catch_unwind(AssertUnwindSafe(|| engine.execute_parallel(&decoy, &decoy_facts, false)));
            for m in marks.iter() {
                m.store(0, Ordering::SeqCst);
            }
        }
        match engine.execute_parallel(&kb, &facts, false) {
            Ok(res) => RunRes::Done(RunOut {
                contexts: res.execution_contexts.iter().map(|x| (x.rule.name.clone(), x.rule.salience, x.fired)).collect(),
                evaluated: res.total_rules_evaluated,
                fired: res.total_rules_fired,
                marks: marks.iter().map(|m| m.load(Ordering::SeqCst)).collect(),
            }),
            Err(e) => RunRes::Error(format!("{:?}", e)),
        }
    }));
    match r {
        Ok(r) => r,
        Err(p) => {
            let m = if let Some(s) = p.downcast_ref::<&str>() {
                s.to_string()
            } else if let Some(s) = p.downcast_ref::<String>() {
                s.clone()
            } else {
                "non-string payload".into()
            };
            RunRes::Panicked(m.chars().take(60).map(|c| if c.is_ascii_alphanumeric() { c } else { '-' }).collect())
        }
    }
}

pub type Fail = (String, String, String); // clause, cause, detail

/// Clauses that every single result must satisfy (`path` = "parallel" | "one-by-one").
fn check_result(c: &CaseSpec, reference: &[Option<bool>], out: &RunOut, path: &str) -> Option<Fail> {
    // every enabled rule exactly once, nothing else
    let mut seen: HashMap<&str, usize> = HashMap::new();
    for (n, _, _) in &out.contexts {
        *seen.entry(n.as_str()).or_insert(0) += 1;
    }
    for r in &c.rules {
        let k = seen.get(r.name.as_str()).copied().unwrap_or(0);
        if r.enabled && k == 0 {
            return Some((
                "every-enabled-rule-exactly-once".into(),
                format!("{}:enabled-rule-missing-from-contexts", path),
                format!("{} path: enabled rule {} (salience {}) does not appear in execution_contexts {:?}", path, r.name, r.salience, out.contexts),
            ));
        }
        if r.enabled && k > 1 {
            return Some((
                "every-enabled-rule-exactly-once".into(),
                format!("{}:rule-appears-more-than-once", path),
                format!("{} path: rule {} appears {} times in execution_contexts {:?}", path, r.name, k, out.contexts),
            ));
        }
        if !r.enabled && k > 0 {
            return Some((
                "every-enabled-rule-exactly-once".into(),
                format!("{}:disabled-rule-evaluated", path),
                format!("{} path: disabled rule {} appears in execution_contexts", path, r.name),
            ));
        }
    }
    if let Some((n, _, _)) = out.contexts.iter().find(|(n, _, _)| !c.rules.iter().any(|r| &r.name == n)) {
        return Some((
            "every-enabled-rule-exactly-once".into(),
            format!("{}:unknown-rule-in-contexts", path),
            format!("{} path: execution_contexts names {} which is not in the knowledge base", path, n),
        ));
    }
    // counts
    let enabled = c.rules.iter().filter(|r| r.enabled).count();
    if out.evaluated != enabled {
        return Some((
            "counts".into(),
            format!("{}:evaluated-count-differs-from-number-of-enabled-rules", path),
            format!("{} path: total_rules_evaluated = {}, enabled rules = {}", path, out.evaluated, enabled),
        ));
    }
    let fired_ctx = out.contexts.iter().filter(|x| x.2).count();
    if out.fired != fired_ctx {
        return Some((
            "counts".into(),
            format!("{}:fired-count-differs-from-fired-contexts", path),
            format!("{} path: total_rules_fired = {}, contexts with fired=true = {}", path, out.fired, fired_ctx),
        ));
    }
    // verdicts against the reference, where defined
    for (i, r) in c.rules.iter().enumerate() {
        if !r.enabled {
            continue;
        }
        if let Some(want) = reference[i] {
            let got = out.contexts.iter().find(|x| x.0 == r.name).map(|x| x.2).unwrap_or(false);
            if got != want {
                return Some((
                    "verdict-equals-reference".into(),
                    format!("{}:{}", path, if got { "fired-on-false-condition" } else { "silent-on-true-condition" }),
                    format!("{} path: rule {} fired={} but its condition {} is {} on the facts {:?}", path, r.name, got, r.cond.grl(), want, c.facts),
                ));
            }
        }
    }
    // higher salience levels first
    for w in out.contexts.windows(2) {
        if w[0].1 < w[1].1 {
            return Some((
                "higher-salience-levels-first".into(),
                format!("{}:lower-salience-rule-precedes-higher", path),
                format!("{} path: {} (salience {}) precedes {} (salience {}) in execution_contexts", path, w[0].0, w[0].1, w[1].0, w[1].1),
            ));
        }
    }
    None
}

fn fired_set(o: &RunOut) -> Vec<String> {
    let mut v: Vec<String> = o.contexts.iter().filter(|x| x.2).map(|x| x.0.clone()).collect();
    v.sort();
    v.dedup();
    v
}

#[derive(Default, Clone, Debug)]
pub struct CaseObs {
    pub skipped_parser: bool,
    pub parallel_runs: u64,
    pub rules_evaluated: u64,
    pub rules_fired: u64,
    pub rules_not_fired: u64,
    pub reference_defined: u64,
    pub reference_undefined: u64,
    pub levels: u64,
    pub levels_with_2plus_rules: u64,
    /// per parallel run: hash of the order of contexts relative to the one-by-one order
    pub completion_orders: Vec<u64>,
    pub runs_reordered: u64,
    /// mark-action runs that disagree with the reported verdict (evidence only)
    pub action_runs_inconsistent: u64,
}

fn fail_of_runres(r: &RunRes, path: &str) -> Option<Fail> {
    match r {
        RunRes::Done(_) => None,
        RunRes::Error(e) => Some((
            "returns-a-result".into(),
            format!("{}:error-returned", path),
            format!("{} path: execute_parallel returned Err({})", path, e),
        )),
        RunRes::Panicked(m) => Some((
            "returns-a-result".into(),
            format!("{}:panicked", path),
            format!("{} path: execute_parallel panicked: {}", path, m),
        )),
    }
}

/// The differential monitor on one case. `before_run` is called before every call into the
/// library (watchdog bookkeeping).
pub fn run_case(c: &CaseSpec, before_run: &mut dyn FnMut()) -> (Option<Fail>, CaseObs) {
    let mut obs = CaseObs::default();
    let rules = match build_rules(c) {
        Built::Rules(r) => r,
        Built::ParserDisagrees(_) => {
            obs.skipped_parser = true;
            return (None, obs);
        }
    };
    let reference: Vec<Option<bool>> = c.rules.iter().map(|r| r.cond.eval(&c.facts)).collect();
    for (i, r) in c.rules.iter().enumerate() {
        if r.enabled {
            if reference[i].is_some() {
                obs.reference_defined += 1;
            } else {
                obs.reference_undefined += 1;
            }
        }
    }
    // the engine's own one-by-one path
    before_run();
    let seq = run_once(c, &rules, false);
    if let Some(f) = fail_of_runres(&seq, "one-by-one") {
        return (Some(f), obs);
    }
    let RunRes::Done(seq) = seq else { unreachable!() };
    if let Some(f) = check_result(c, &reference, &seq, "one-by-one") {
        return (Some(f), obs);
    }
    let mut levels: Vec<i32> = seq.contexts.iter().map(|x| x.1).collect();
    levels.dedup();
    obs.levels = levels.len() as u64;
    obs.levels_with_2plus_rules = levels.iter().filter(|l| seq.contexts.iter().filter(|x| x.1 == **l).count() >= 2).count() as u64;
    let seq_fired = fired_set(&seq);
    let pos: HashMap<&str, usize> = seq.contexts.iter().enumerate().map(|(i, x)| (x.0.as_str(), i)).collect();
    // the parallel path, repeatedly
    for _ in 0..c.schedules.max(1) {
        before_run();
        let par = run_once(c, &rules, true);
        obs.parallel_runs += 1;
        if let Some(f) = fail_of_runres(&par, "parallel") {
            return (Some(f), obs);
        }
        let RunRes::Done(par) = par else { unreachable!() };
        obs.rules_evaluated += par.evaluated as u64;
        obs.rules_fired += par.fired as u64;
        obs.rules_not_fired += (par.evaluated.saturating_sub(par.fired)) as u64;
        if let Some(f) = check_result(c, &reference, &par, "parallel") {
            return (Some(f), obs);
        }
        // differential
        let pf = fired_set(&par);
        if pf != seq_fired {
            return (
                Some((
                    "same-fired-set-as-one-by-one".into(),
                    "fired-set-differs".into(),
                    format!("parallel fired {:?}, one-by-one fired {:?} (max_threads {}, min_rules_per_thread {})", pf, seq_fired, c.max_threads, c.min_rules_per_thread),
                )),
                obs,
            );
        }
        if par.evaluated != seq.evaluated || par.fired != seq.fired {
            return (
                Some((
                    "same-counts-as-one-by-one".into(),
                    if par.evaluated != seq.evaluated { "evaluated-count-differs" } else { "fired-count-differs" }.into(),
                    format!("parallel evaluated/fired = {}/{}, one-by-one = {}/{}", par.evaluated, par.fired, seq.evaluated, seq.fired),
                )),
                obs,
            );
        }
        // evidence: completion order relative to the one-by-one order
        let perm: Vec<usize> = par.contexts.iter().map(|x| pos.get(x.0.as_str()).copied().unwrap_or(usize::MAX)).collect();
        if perm.windows(2).any(|w| w[0] > w[1]) {
            obs.runs_reordered += 1;
        }
        let mut h: u64 = 0xcbf2_9ce4_8422_2325;
        for p in &perm {
            h ^= *p as u64 + 1;
            h = h.wrapping_mul(0x0000_0100_0000_01b3);
        }
        obs.completion_orders.push(h);
        for (i, r) in c.rules.iter().enumerate() {
            if r.actions.contains(&Act::Mark) {
                let fired = par.contexts.iter().any(|x| x.0 == r.name && x.2);
                if par.marks[i] != fired as u32 {
                    obs.action_runs_inconsistent += 1;
                }
            }
        }
    }
    (None, obs)
}
