//! C12 helper (included only by src/bin/c12.rs): the step monitors and the reference folds.
//!
//! Every monitor compares what was observed in the structure before a call (P), the offered
//! event (e) and what is observed after it (N). No model of the structure's contents is kept
//! between steps, so history-dependent but legitimate eviction can never raise an alarm.

use crate::case::*;
use rre_verif::*;
use rust_rule_engine::rete::stream_alpha_node::{StreamAlphaNode, WindowSpec};
use rust_rule_engine::streaming::aggregator::{AggregationResult, AggregationType, Aggregator};
use rust_rule_engine::streaming::event::StreamEvent;
use rust_rule_engine::streaming::operators::{
    AggregateResult, Aggregation, Average, Count, DataStream, Max, Min, Sum, WindowConfig, WindowedStream,
};
use rust_rule_engine::streaming::window::{TimeWindow, WindowManager, WindowType};
use rust_rule_engine::types::Value;
use std::time::Duration;

/// (identity = index of the offer, timestamp) of a retained event, in the structure's own order.
pub type Snap = Vec<(u32, u64)>;

pub fn snap<'a>(it: impl Iterator<Item = &'a StreamEvent>) -> Snap {
    it.map(|e| (e.metadata.sequence as u32, e.metadata.timestamp)).collect()
}

#[derive(Clone, Debug)]
pub struct V {
    pub clause: &'static str,
    pub cause: String,
    pub detail: String,
    #[allow(dead_code)]
    pub step: usize,
}

macro_rules! obs_struct {
    ($($f:ident),* $(,)?) => {
        /// Observation counters of the monitors (flushed into the evidence).
        #[derive(Default, Clone, Debug)]
        pub struct Obs { $(pub $f: u64,)* }
        impl Obs {
            pub fn merge(&mut self, o: &Obs) { $(self.$f += o.$f;)* }
            pub fn flush(&self, st: &mut Stats) { $(if self.$f > 0 { st.add(stringify!($f), self.$f); })* }
        }
    };
}
obs_struct!(
    events_offered,
    steps_monitored,
    accepted,
    rejected,
    evicted_by_time,
    dropped_by_cap,
    late_arrivals,
    exact_boundary_instants,
    windows_observed,
    window_states_aggregated,
    aggregate_comparisons,
    aggregate_windows_without_numeric_value,
    aggregate_windows_with_non_numeric_or_missing,
    node_process_event_calls,
    node_fake_clock_reads_inside_process_event,
    node_calls_without_clock_read,
    node_future_events_reading_left_open,
    node_interval_rollovers,
    record_steps_with_retained_older_event,
    fractional_duration_steps,
);

#[derive(Default)]
pub struct Run {
    pub viols: Vec<V>,
    pub obs: Obs,
    pub max_windows_seen: u64,
    pub max_in_one_window: u64,
}

impl Run {
    pub fn flag(&mut self, step: usize, clause: &'static str, cause: impl Into<String>, detail: impl FnOnce() -> String) {
        let cause = cause.into();
        if !self.viols.iter().any(|v| v.clause == clause && v.cause == cause) {
            self.viols.push(V { clause, cause, detail: detail(), step });
        }
    }
}

pub fn fmt_snap(s: &Snap, base: u64) -> String {
    let parts: Vec<String> = s.iter().map(|(i, t)| format!("e{}@{}", i, t.wrapping_sub(base))).collect();
    format!("[{}]", parts.join(", "))
}

// ------------------------------------------------------------------------------------------
// generic clauses

/// N must be drawn from P + [e]: nothing invented, nothing twice, timestamps unchanged.
fn integrity(p: &Snap, e: Option<(u32, u64)>, n: &Snap) -> Option<(&'static str, String)> {
    for (k, x) in n.iter().enumerate() {
        if n[..k].iter().any(|y| y.0 == x.0) {
            return Some(("event-retained-twice", format!("e{} appears twice", x.0)));
        }
        let src = p.iter().find(|y| y.0 == x.0).copied().or(e.filter(|y| y.0 == x.0));
        match src {
            None => return Some(("retained-event-never-offered-or-already-gone", format!("e{} was neither present before nor offered now", x.0))),
            Some(y) if y.1 != x.1 => return Some(("retained-event-timestamp-changed", format!("e{} had ts {} now {}", x.0, y.1, x.1))),
            _ => {}
        }
    }
    None
}

/// `a`: everything that was in the structure before the call plus the new event, in arrival
/// order. `c`: the sub-list of `a` that must survive unless the cap drops it (in-span events).
/// `n`: what the structure retains. Missing elements of `c` are legitimate only as cap drops:
/// (i) eviction first, then the cap: the structure is full afterwards and the dropped events are
/// the oldest of `c` under the arrival reading or under the timestamp reading; or
/// (ii) the cap first (oldest by arrival), then eviction: `n` is exactly the in-span part of the
/// last `cap` elements of `a`.
fn cap_drop_cause(a: &[(u32, u64)], c: &[(u32, u64)], n: &Snap, cap: usize, e_idx: u32, boundary_ts: Option<u64>) -> Option<&'static str> {
    let kept: Vec<bool> = c.iter().map(|x| n.iter().any(|y| y.0 == x.0)).collect();
    if kept.iter().all(|k| *k) {
        return None;
    }
    // (ii) cap first by arrival, then eviction
    if a.len() > cap {
        let suffix = &a[a.len() - cap..];
        let expect: Vec<u32> = suffix.iter().filter(|x| c.iter().any(|y| y.0 == x.0)).map(|x| x.0).collect();
        if expect.len() == n.len() && expect.iter().all(|id| n.iter().any(|y| y.0 == *id)) {
            return None;
        }
    }
    // (i) eviction first, then the cap
    if n.len() < cap {
        let dropped: Vec<&(u32, u64)> = c.iter().zip(&kept).filter(|(_, k)| !**k).map(|(x, _)| x).collect();
        if dropped.iter().any(|x| x.0 == e_idx) {
            return Some("new-event-itself-dropped");
        }
        if let Some(b) = boundary_ts {
            if dropped.iter().any(|x| x.1 == b) {
                return Some("event-exactly-on-boundary-dropped");
            }
        }
        return Some("in-span-event-dropped-below-cap");
    }
    let mut last_dropped_pos = 0usize;
    let mut first_kept_pos = usize::MAX;
    let mut max_dropped_ts = 0u64;
    let mut min_kept_ts = u64::MAX;
    for (pos, (x, k)) in c.iter().zip(&kept).enumerate() {
        if *k {
            first_kept_pos = first_kept_pos.min(pos);
            min_kept_ts = min_kept_ts.min(x.1);
        } else {
            last_dropped_pos = last_dropped_pos.max(pos);
            max_dropped_ts = max_dropped_ts.max(x.1);
        }
    }
    let arrival_ok = first_kept_pos == usize::MAX || last_dropped_pos < first_kept_pos;
    let ts_ok = max_dropped_ts <= min_kept_ts;
    if arrival_ok || ts_ok {
        None
    } else {
        Some("cap-drop-not-oldest-first")
    }
}

/// Cause predicate for a retained event outside the span. `a` = events before the call plus the
/// new one, in arrival order. Front-only eviction stops at the first in-span event, so its trace
/// is: the stale event sat behind a younger (in-span) event in arrival order. Anything else
/// (nothing in-span in front of it) is a different failure.
fn stale_cause(a: &[(u32, u64)], n: &Snap, is_stale: impl Fn(u64) -> bool) -> Option<(&'static str, (u32, u64))> {
    let x = *n.iter().find(|x| is_stale(x.1))?;
    let pos = a.iter().position(|y| y.0 == x.0).unwrap_or(0);
    if a[..pos].iter().any(|y| !is_stale(y.1)) {
        Some(("stale-event-behind-younger-front", x))
    } else {
        Some(("stale-event-at-front", x))
    }
}

// ------------------------------------------------------------------------------------------
// reference folds and aggregate comparison

struct Fold {
    count: usize,
    n: usize,
    sum: f64,
    abs: f64,
    min: Option<f64>,
    max: Option<f64>,
    non_numeric: usize,
}

fn ref_fold<'a>(it: impl Iterator<Item = &'a StreamEvent>) -> Fold {
    let mut f = Fold { count: 0, n: 0, sum: 0.0, abs: 0.0, min: None, max: None, non_numeric: 0 };
    for e in it {
        f.count += 1;
        let x = match e.data.get(FIELD) {
            Some(Value::Number(x)) => *x,
            Some(Value::Integer(i)) => *i as f64,
            _ => {
                f.non_numeric += 1;
                continue;
            }
        };
        f.n += 1;
        f.sum += x;
        f.abs += x.abs();
        // a reading that is not a number (NaN) is no candidate for the smallest / largest
        // reading while there is any reading that is a number (IEEE minNum/maxNum, which does not
        // depend on the order of the events); sum and average carry it as IEEE addition does
        f.min = Some(match f.min {
            Some(m) if x.is_nan() || m <= x => m,
            _ => x,
        });
        f.max = Some(match f.max {
            Some(m) if x.is_nan() || m >= x => m,
            _ => x,
        });
    }
    f
}

impl Fold {
    fn sum_tol(&self) -> f64 {
        self.n as f64 * f64::EPSILON * self.abs
    }
    fn avg(&self) -> Option<f64> {
        if self.n == 0 {
            None
        } else {
            Some(self.sum / self.n as f64)
        }
    }
    fn avg_tol(&self) -> f64 {
        f64::EPSILON * (self.abs + self.avg().map(|a| a.abs()).unwrap_or(0.0))
    }
}

fn close(a: Option<f64>, b: Option<f64>, tol: f64) -> bool {
    match (a, b) {
        (None, None) => true,
        // a tolerance that is itself not finite (infinite readings) allows nothing but equality
        (Some(x), Some(y)) => x == y || (x.is_nan() && y.is_nan()) || (tol.is_finite() && (x - y).abs() <= tol),
        _ => false,
    }
}

fn num1(r: &AggregationResult) -> Result<Option<f64>, String> {
    match r {
        AggregationResult::Number(x) => Ok(Some(*x)),
        AggregationResult::None => Ok(None),
        o => Err(format!("{:?}", o)),
    }
}
fn num2(r: &AggregateResult) -> Result<Option<f64>, String> {
    match r {
        AggregateResult::Number(x) => Ok(Some(*x)),
        AggregateResult::None => Ok(None),
        o => Err(format!("{:?}", o)),
    }
}

/// The aggregators under test, built once per run.
pub struct AggSet {
    a_count: Aggregator,
    a_sum: Aggregator,
    a_avg: Aggregator,
    a_min: Aggregator,
    a_max: Aggregator,
    o_sum: Sum,
    o_avg: Average,
    o_min: Min,
    o_max: Max,
}

impl AggSet {
    pub fn new() -> Self {
        let f = || FIELD.to_string();
        AggSet {
            a_count: Aggregator::new(AggregationType::Count),
            a_sum: Aggregator::new(AggregationType::Sum { field: f() }),
            a_avg: Aggregator::new(AggregationType::Average { field: f() }),
            a_min: Aggregator::new(AggregationType::Min { field: f() }),
            a_max: Aggregator::new(AggregationType::Max { field: f() }),
            o_sum: Sum::new(FIELD),
            o_avg: Average::new(FIELD),
            o_min: Min::new(FIELD),
            o_max: Max::new(FIELD),
        }
    }
}

/// count/sum/average/min/max of one observed window through every API against the reference
/// fold over exactly `events()`.
pub fn check_aggs(w: &TimeWindow, a: &AggSet, step: usize, base: u64, r: &mut Run) {
    let evs = w.events();
    let f = ref_fold(evs.iter());
    r.obs.window_states_aggregated += 1;
    if f.n == 0 && f.count > 0 {
        r.obs.aggregate_windows_without_numeric_value += 1;
    }
    if f.non_numeric > 0 {
        r.obs.aggregate_windows_with_non_numeric_or_missing += 1;
    }
    let count = Some(f.count as f64);
    let sum = Some(f.sum);
    let (ts, ta) = (f.sum_tol(), f.avg_tol());
    let (slice_a, slice_b) = evs.as_slices();
    let tmp: Vec<StreamEvent>;
    let slice: &[StreamEvent] = if slice_b.is_empty() {
        slice_a
    } else {
        tmp = evs.iter().cloned().collect();
        &tmp
    };
    let results: [(&'static str, Result<Option<f64>, String>, Option<f64>, f64); 23] = [
        ("TimeWindow::count", Ok(Some(w.count() as f64)), count, 0.0),
        ("TimeWindow::sum", Ok(Some(w.sum(FIELD))), sum, ts),
        ("TimeWindow::average", Ok(w.average(FIELD)), f.avg(), ta),
        ("TimeWindow::min", Ok(w.min(FIELD)), f.min, 0.0),
        ("TimeWindow::max", Ok(w.max(FIELD)), f.max, 0.0),
        ("Aggregator::aggregate(Count)", num1(&a.a_count.aggregate(w)), count, 0.0),
        ("Aggregator::aggregate(Sum)", num1(&a.a_sum.aggregate(w)), sum, ts),
        ("Aggregator::aggregate(Average)", num1(&a.a_avg.aggregate(w)), f.avg(), ta),
        ("Aggregator::aggregate(Min)", num1(&a.a_min.aggregate(w)), f.min, 0.0),
        ("Aggregator::aggregate(Max)", num1(&a.a_max.aggregate(w)), f.max, 0.0),
        ("Aggregator::aggregate_events(Count)", num1(&a.a_count.aggregate_events(slice)), count, 0.0),
        ("Aggregator::aggregate_events(Sum)", num1(&a.a_sum.aggregate_events(slice)), sum, ts),
        ("Aggregator::aggregate_events(Average)", num1(&a.a_avg.aggregate_events(slice)), f.avg(), ta),
        ("operators::Count", num2(&Count.aggregate(slice)), count, 0.0),
        ("operators::Sum", num2(&a.o_sum.aggregate(slice)), sum, ts),
        ("operators::Average", num2(&a.o_avg.aggregate(slice)), f.avg(), ta),
        ("operators::Min", num2(&a.o_min.aggregate(slice)), f.min, 0.0),
        ("operators::Max", num2(&a.o_max.aggregate(slice)), f.max, 0.0),
        // the same window must give the same answers when asked twice (no consumed state)
        ("TimeWindow::count(second call)", Ok(Some(w.count() as f64)), count, 0.0),
        ("TimeWindow::sum(second call)", Ok(Some(w.sum(FIELD))), sum, ts),
        ("TimeWindow::average(second call)", Ok(w.average(FIELD)), f.avg(), ta),
        ("TimeWindow::min(second call)", Ok(w.min(FIELD)), f.min, 0.0),
        ("TimeWindow::max(second call)", Ok(w.max(FIELD)), f.max, 0.0),
    ];
    // the window's other read views must describe the same events
    {
        let all: Vec<u64> = evs.iter().map(|e| e.metadata.sequence).collect();
        let in_range: Vec<u64> = w.events_in_range(w.start_time, w.end_time).iter().map(|e| e.metadata.sequence).collect();
        let lo = evs.iter().map(|e| e.metadata.timestamp).min();
        let hi = evs.iter().map(|e| e.metadata.timestamp).max();
        // (a sliding window's bounds move with the newest event; ask for the span the events really cover)
        let spanned: Vec<u64> = match (lo, hi) {
            (Some(l), Some(h)) => w.events_in_range(l, h + 1).iter().map(|e| e.metadata.sequence).collect(),
            _ => Vec::new(),
        };
        let half: Vec<u64> = match (lo, hi) {
            (Some(l), Some(h)) => {
                let mid = l + (h - l) / 2;
                let want: Vec<u64> = evs.iter().filter(|e| e.metadata.timestamp >= l && e.metadata.timestamp < mid).map(|e| e.metadata.sequence).collect();
                let got: Vec<u64> = w.events_in_range(l, mid).iter().map(|e| e.metadata.sequence).collect();
                if got != want {
                    r.flag(step, "aggregate", "TimeWindow::events_in_range", || format!("step {}: events_in_range({}, {}) = {:?}, the events with a timestamp in that range are {:?}", step, l.wrapping_sub(base), mid.wrapping_sub(base), got, want));
                }
                got
            }
            _ => Vec::new(),
        };
        let _ = half;
        let by_type: Vec<u64> = w.events_by_type(EVENT_TYPE).iter().map(|e| e.metadata.sequence).collect();
        let other_type = w.events_by_type("no-such-type").len();
        r.obs.aggregate_comparisons += 5;
        if spanned != all || by_type != all || other_type != 0 || w.latest_timestamp() != hi || (in_range.len() > all.len()) {
            r.flag(step, "aggregate", "TimeWindow::read-views-disagree-with-events()", || {
                format!(
                    "step {}: window [{}, {}): events() = {:?}; events_in_range(min ts, max ts + 1) = {:?}; events_by_type({:?}) = {:?}; events_by_type(other) has {}; latest_timestamp() = {:?}, largest timestamp in events() = {:?}",
                    step,
                    w.start_time.wrapping_sub(base),
                    w.end_time.wrapping_sub(base),
                    all,
                    spanned,
                    EVENT_TYPE,
                    by_type,
                    other_type,
                    w.latest_timestamp().map(|t| t.wrapping_sub(base)),
                    hi.map(|t| t.wrapping_sub(base))
                )
            });
        }
    }
    for (api, got, want, tol) in results.iter() {
        r.obs.aggregate_comparisons += 1;
        let ok = match got {
            Ok(g) => close(*g, *want, *tol),
            Err(_) => false,
        };
        if !ok {
            let pays: Vec<String> = evs
                .iter()
                .map(|e| format!("e{}@{}:{:?}", e.metadata.sequence, e.metadata.timestamp.wrapping_sub(base), e.data.get(FIELD)))
                .collect();
            r.flag(step, "aggregate", *api, || {
                format!(
                    "step {}: {} over window [{}, {}) returned {:?}, the reference fold over its events() gives {:?} (tolerance {:e}); events: [{}]",
                    step,
                    api,
                    w.start_time.wrapping_sub(base),
                    w.end_time.wrapping_sub(base),
                    got,
                    want,
                    tol,
                    pays.join(", ")
                )
            });
        }
    }
}

// ------------------------------------------------------------------------------------------
// TimeWindow: add_event / record

pub fn run_tw(sliding: bool, start: u64, d: u64, cap: usize, base: u64, ops: &[(TwOp, Ev)], from: usize, r: &mut Run) {
    let wt = if sliding { WindowType::Sliding } else { WindowType::Tumbling };
    let start_abs = base + start;
    let mut w = TimeWindow::new(wt, Duration::from_millis(d), start_abs, cap);
    let aggs = AggSet::new();
    let mut recorded = false;
    let mut max_ts: Option<u64> = None;
    for (i, (op, ev)) in ops.iter().enumerate() {
        let ts = base + ev.ts;
        let e = mk_event(i, ts, &ev.pay);
        let me = (i as u32, ts);
        let monitored = i >= from;
        r.obs.events_offered += 1;
        if max_ts.is_some_and(|m| ts < m) {
            r.obs.late_arrivals += 1;
        }
        max_ts = Some(max_ts.map_or(ts, |m| m.max(ts)));
        let len_before = w.count();
        let p = if monitored { snap(w.events().iter()) } else { Vec::new() };
        match op {
            TwOp::Add => {
                // the span of the window: what the constructor was given, or, once `record` has
                // moved it, what the public fields say
                let (s, en) = if recorded { (w.start_time, w.end_time) } else { (start_abs, start_abs.saturating_add(d)) };
                let acc = w.add_event(e);
                if acc {
                    r.obs.accepted += 1;
                    r.obs.dropped_by_cap += (len_before + 1 - w.count()) as u64;
                } else {
                    r.obs.rejected += 1;
                }
                if ts == s || ts == en || ts + 1 == en {
                    r.obs.exact_boundary_instants += 1;
                }
                if !monitored {
                    continue;
                }
                r.obs.steps_monitored += 1;
                let n = snap(w.events().iter());
                if !recorded && (w.start_time != start_abs || w.end_time != start_abs.saturating_add(d)) {
                    r.flag(i, "add_event", "span-of-window-is-not-start-plus-duration", || {
                        format!(
                            "window built with start {} and duration {} reports span [{}, {})",
                            start,
                            d,
                            w.start_time.wrapping_sub(base),
                            w.end_time.wrapping_sub(base)
                        )
                    });
                }
                let should = s <= ts && ts < en;
                if acc != should {
                    let cause = if ts == s {
                        "timestamp-equals-start"
                    } else if ts == en {
                        "timestamp-equals-end"
                    } else if ts + 1 == en {
                        "timestamp-is-last-instant-of-span"
                    } else if ts + 1 == s {
                        "timestamp-one-before-start"
                    } else if ts < s {
                        "timestamp-before-start"
                    } else if ts > en {
                        "timestamp-after-end"
                    } else {
                        "timestamp-inside-span"
                    };
                    r.flag(i, "add_event", cause, || {
                        format!(
                            "step {}: add_event(ts {}) on span [{}, {}) returned {}, the half-open span test says {}",
                            i,
                            ev.ts,
                            s.wrapping_sub(base),
                            en.wrapping_sub(base),
                            acc,
                            should
                        )
                    });
                } else if let Some((cause, why)) = integrity(&p, if should { Some(me) } else { None }, &n) {
                    r.flag(i, "add_event", cause, || format!("step {}: {}; before {} after {}", i, why, fmt_snap(&p, base), fmt_snap(&n, base)));
                } else {
                    let mut c = p.clone();
                    if should {
                        c.push(me);
                    }
                    let cause = if should {
                        cap_drop_cause(&c, &c, &n, cap, me.0, None)
                    } else if n.len() != p.len() {
                        Some("rejected-event-altered-window")
                    } else {
                        None
                    };
                    if let Some(cause) = cause {
                        r.flag(i, "add_event", cause, || {
                            format!(
                                "step {}: add_event(e{}@{}) cap {}: before {} after {}",
                                i,
                                i,
                                ev.ts,
                                cap,
                                fmt_snap(&p, base),
                                fmt_snap(&n, base)
                            )
                        });
                    }
                }
            }
            TwOp::Record => {
                w.record(e);
                recorded = true;
                r.obs.accepted += 1;
                if !sliding {
                    continue; // outside the statement (continuously sliding windows only)
                }
                let cutoff = ts.saturating_sub(d);
                let len_after = w.count();
                if !monitored {
                    // cheap whole-case observations only
                    if len_before + 1 > len_after {
                        r.obs.evicted_by_time += (len_before + 1 - len_after) as u64; // (time or cap, unmonitored step)
                    }
                    if len_after >= 2 {
                        r.obs.record_steps_with_retained_older_event += 1;
                    }
                    continue;
                }
                r.obs.steps_monitored += 1;
                let n = snap(w.events().iter());
                let mut stale_in_p = 0u64;
                for x in &p {
                    if x.1 < cutoff {
                        stale_in_p += 1;
                    }
                    if x.1 == cutoff {
                        r.obs.exact_boundary_instants += 1;
                    }
                }
                r.obs.evicted_by_time += stale_in_p.min((len_before + 1 - len_after) as u64);
                r.obs.dropped_by_cap += ((len_before + 1 - len_after) as u64).saturating_sub(stale_in_p);
                if n.len() >= 2 {
                    r.obs.record_steps_with_retained_older_event += 1;
                }
                let mut all = p.clone();
                all.push(me);
                if let Some((cause, why)) = integrity(&p, Some(me), &n) {
                    r.flag(i, "record", cause, || format!("step {}: {}; before {} after {}", i, why, fmt_snap(&p, base), fmt_snap(&n, base)));
                } else if let Some((cause, x)) = stale_cause(&all, &n, |t| t < cutoff) {
                    r.flag(i, "record", cause, || {
                        format!(
                            "step {}: after record(e{}@{}) with duration {} the window retains e{}@{}, older than {} = {} - {}; before {} after {}",
                            i,
                            i,
                            ev.ts,
                            d,
                            x.0,
                            x.1.wrapping_sub(base),
                            cutoff.wrapping_sub(base),
                            ev.ts,
                            d,
                            fmt_snap(&p, base),
                            fmt_snap(&n, base)
                        )
                    });
                } else {
                    let mut c: Vec<(u32, u64)> = p.iter().copied().filter(|x| x.1 >= cutoff).collect();
                    c.push(me);
                    if let Some(cause) = cap_drop_cause(&all, &c, &n, cap, me.0, Some(cutoff)) {
                        r.flag(i, "record", cause, || {
                            format!(
                                "step {}: record(e{}@{}) duration {} cap {}: an event not older than {} is gone although the cap does not explain it; before {} after {}",
                                i,
                                i,
                                ev.ts,
                                d,
                                cap,
                                cutoff.wrapping_sub(base),
                                fmt_snap(&p, base),
                                fmt_snap(&n, base)
                            )
                        });
                    }
                }
            }
        }
        if monitored {
            r.obs.windows_observed += 1;
            check_aggs(&w, &aggs, i, base, r);
        }
    }
    r.max_in_one_window = r.max_in_one_window.max(w.count() as u64);
}

// ------------------------------------------------------------------------------------------
// tumbling placement: WindowManager (step) and WindowedStream (batch)

#[derive(Clone, Debug)]
pub struct WSnap {
    pub start: u64,
    pub end: u64,
    pub evs: Snap,
}

fn snap_windows(ws: &[TimeWindow]) -> Vec<WSnap> {
    ws.iter()
        .map(|w| WSnap { start: w.start_time, end: w.end_time, evs: snap(w.events().iter()) })
        .collect()
}

fn fmt_windows(ws: &[WSnap], base: u64) -> String {
    let parts: Vec<String> = ws
        .iter()
        .map(|w| format!("[{},{}){}", w.start.wrapping_sub(base), w.end.wrapping_sub(base), fmt_snap(&w.evs, base)))
        .collect();
    format!("{{{}}}", parts.join(" "))
}

/// Clauses that every set of tumbling windows must satisfy: aligned spans, no overlap, every
/// event inside the span of the window that holds it, no event in two windows.
fn tumbling_shape(clause: &'static str, step: usize, ws: &[WSnap], d: u64, base: u64, r: &mut Run) -> bool {
    let mut ok = true;
    for (k, w) in ws.iter().enumerate() {
        if w.start % d != 0 || w.end != w.start + d {
            ok = false;
            r.flag(step, clause, "window-not-an-aligned-interval", || {
                format!("step {}: window [{}, {}) (absolute [{}, {})) is not floor(t/{})*{} .. +{}", step, w.start.wrapping_sub(base), w.end.wrapping_sub(base), w.start, w.end, d, d, d)
            });
        }
        if ws[..k].iter().any(|o| o.start < w.end && w.start < o.end) {
            ok = false;
            r.flag(step, clause, "windows-overlap", || format!("step {}: windows {}", step, fmt_windows(ws, base)));
        }
        for x in &w.evs {
            if x.1 < w.start || x.1 >= w.end {
                ok = false;
                let cause = if x.1 == w.end {
                    "event-at-end-instant-held-by-window"
                } else if x.1 + 1 == w.start {
                    "event-one-before-start-held-by-window"
                } else {
                    "event-outside-span-of-its-window"
                };
                r.flag(step, clause, cause, || {
                    format!("step {}: e{}@{} is held by window [{}, {})", step, x.0, x.1.wrapping_sub(base), w.start.wrapping_sub(base), w.end.wrapping_sub(base))
                });
            }
            if ws[..k].iter().any(|o| o.evs.iter().any(|y| y.0 == x.0)) {
                ok = false;
                r.flag(step, clause, "event-in-several-windows", || format!("step {}: e{} is in more than one window: {}", step, x.0, fmt_windows(ws, base)));
            }
        }
    }
    ok
}

pub fn run_wm(d: u64, cap: usize, max_windows: usize, base: u64, evs: &[Ev], from: usize, frac_us: u32, r: &mut Run) {
    const CL: &str = "window-manager";
    if frac_us != 0 {
        return run_wm_fractional(d, cap, max_windows, base, evs, from, frac_us, r);
    }
    let mut m = WindowManager::new(WindowType::Tumbling, Duration::from_millis(d), cap, max_windows);
    let aggs = AggSet::new();
    let mut max_ts: Option<u64> = None;
    for (i, ev) in evs.iter().enumerate() {
        let ts = base + ev.ts;
        let e = mk_event(i, ts, &ev.pay);
        let me = (i as u32, ts);
        let monitored = i >= from;
        r.obs.events_offered += 1;
        if max_ts.is_some_and(|mx| ts < mx) {
            r.obs.late_arrivals += 1;
        }
        max_ts = Some(max_ts.map_or(ts, |mx| mx.max(ts)));
        if ts % d == 0 || (ts + 1) % d == 0 {
            r.obs.exact_boundary_instants += 1;
        }
        let p = if monitored { snap_windows(m.active_windows()) } else { Vec::new() };
        m.process_event(e);
        r.max_windows_seen = r.max_windows_seen.max(m.active_windows().len() as u64);
        for w in m.active_windows() {
            r.max_in_one_window = r.max_in_one_window.max(w.count() as u64);
        }
        if !monitored {
            continue;
        }
        r.obs.steps_monitored += 1;
        let n = snap_windows(m.active_windows());
        r.obs.windows_observed += n.len() as u64;
        let aligned = (ts / d) * d;
        if !tumbling_shape(CL, i, &n, d, base, r) {
            continue;
        }
        // placement of the new event
        let holders: Vec<&WSnap> = n.iter().filter(|w| w.evs.iter().any(|x| x.0 == me.0)).collect();
        if let Some(h) = holders.first() {
            r.obs.accepted += 1;
            if h.start != aligned {
                r.flag(i, CL, "new-event-in-wrong-window", || {
                    format!("step {}: e{}@{} is in window [{}, {}), its aligned interval starts at {}", i, i, ev.ts, h.start.wrapping_sub(base), h.end.wrapping_sub(base), aligned.wrapping_sub(base))
                });
                continue;
            }
        }
        // every window that survives keeps its events (+ the new one if it is the aligned one), cap drops aside
        let mut bad = false;
        for w in &n {
            let before = p.iter().find(|o| o.start == w.start);
            let mut c: Vec<(u32, u64)> = before.map(|o| o.evs.clone()).unwrap_or_default();
            let pw: Snap = c.clone();
            if w.start == aligned {
                c.push(me);
            } else if before.is_none() {
                bad = true;
                r.flag(i, CL, "unexpected-new-window", || format!("step {}: window [{}, {}) appeared although e{}@{} belongs to the interval starting at {}; before {} after {}", i, w.start.wrapping_sub(base), w.end.wrapping_sub(base), i, ev.ts, aligned.wrapping_sub(base), fmt_windows(&p, base), fmt_windows(&n, base)));
                continue;
            }
            if let Some((cause, why)) = integrity(&pw, if w.start == aligned { Some(me) } else { None }, &w.evs) {
                bad = true;
                r.flag(i, CL, cause, || format!("step {}: window [{}, {}): {}; before {} after {}", i, w.start.wrapping_sub(base), w.end.wrapping_sub(base), why, fmt_windows(&p, base), fmt_windows(&n, base)));
            } else if let Some(cause) = cap_drop_cause(&c, &c, &w.evs, cap, me.0, None) {
                bad = true;
                let cause = if cause == "new-event-itself-dropped" { "new-event-in-no-window" } else { cause };
                r.flag(i, CL, cause, || format!("step {}: process_event(e{}@{}) cap {}: window [{}, {}) lost an event the cap does not explain; before {} after {}", i, i, ev.ts, cap, w.start.wrapping_sub(base), w.end.wrapping_sub(base), fmt_windows(&p, base), fmt_windows(&n, base)));
            }
            let dropped = c.len().saturating_sub(w.evs.len());
            r.obs.dropped_by_cap += dropped as u64;
        }
        if bad {
            continue;
        }
        if !n.iter().any(|w| w.start == aligned) {
            r.flag(i, CL, "new-event-in-no-window", || format!("step {}: after process_event(e{}@{}) no window for the aligned interval starting at {} exists; before {} after {}", i, i, ev.ts, aligned.wrapping_sub(base), fmt_windows(&p, base), fmt_windows(&n, base)));
            continue;
        }
        // whole windows may only disappear when expired (end <= some timestamp offered so far) or by the window limit
        for o in &p {
            if !n.iter().any(|w| w.start == o.start) {
                let expired = max_ts.is_some_and(|mx| o.end <= mx);
                let by_limit = n.len() >= max_windows;
                if !expired && !by_limit {
                    r.flag(i, CL, "live-window-dropped", || format!("step {}: window [{}, {}) vanished although it is not expired (largest timestamp offered {}) and {} windows < limit {}; before {} after {}", i, o.start.wrapping_sub(base), o.end.wrapping_sub(base), max_ts.unwrap_or(0).wrapping_sub(base), n.len(), max_windows, fmt_windows(&p, base), fmt_windows(&n, base)));
                } else {
                    r.obs.evicted_by_time += o.evs.len() as u64;
                }
            }
        }
        // aggregates of the window that changed in this step
        if let Some(w) = m.active_windows().iter().find(|w| w.start_time == aligned) {
            check_aggs(w, &aggs, i, base, r);
        }
        // the manager's summary views against its own window list
        {
            let ws = m.active_windows();
            let total: usize = ws.iter().map(|w| w.events().len()).sum();
            let stats = m.get_statistics();
            let sum_all: f64 = ws.iter().map(|w| ref_fold(w.events().iter()).sum).sum();
            let across = m.aggregate_across_windows(|w| w.sum(FIELD));
            let latest = m.latest_window().map(|w| w.start_time);
            let with_type = m.windows_with_event_type(EVENT_TYPE).len();
            let non_empty = ws.iter().filter(|w| !w.events().is_empty()).count();
            r.obs.aggregate_comparisons += 6;
            let tol = 1e-9 * (1.0 + sum_all.abs());
            if m.total_event_count() != total
                || stats.total_events != total
                || stats.total_windows != ws.len()
                || stats.oldest_window_start != ws.first().map(|w| w.start_time)
                || stats.newest_window_start != ws.last().map(|w| w.start_time)
                || latest != ws.last().map(|w| w.start_time)
                || with_type != non_empty
                || !(across == sum_all || (across - sum_all).abs() <= tol || (across.is_nan() && sum_all.is_nan()))
            {
                r.flag(i, "aggregate", "WindowManager::summary-views-disagree-with-active_windows()", || {
                    format!(
                        "step {}: active_windows() hold {} events in {} windows ({} non-empty, sum of the field {}); total_event_count() = {}, get_statistics() = {:?}, latest_window() starts at {:?}, windows_with_event_type = {}, aggregate_across_windows(sum) = {}",
                        i, total, ws.len(), non_empty, sum_all, m.total_event_count(), stats, latest.map(|t| t.wrapping_sub(base)), with_type, across
                    )
                });
            }
        }
    }
}

/// A duration with a sub-millisecond part: only the interpretation-free clause is judged (the
/// event just offered is held by exactly one window and that window's own span contains it).
#[allow(clippy::too_many_arguments)]
fn run_wm_fractional(d: u64, cap: usize, max_windows: usize, base: u64, evs: &[Ev], from: usize, frac_us: u32, r: &mut Run) {
    const CL: &str = "window-manager";
    let dur = Duration::from_micros(d.saturating_mul(1000).saturating_add(frac_us as u64));
    let mut m = WindowManager::new(WindowType::Tumbling, dur, cap, max_windows);
    for (i, ev) in evs.iter().enumerate() {
        let ts = base + ev.ts;
        m.process_event(mk_event(i, ts, &ev.pay));
        r.obs.events_offered += 1;
        if i < from {
            continue;
        }
        r.obs.steps_monitored += 1;
        r.obs.fractional_duration_steps += 1;
        let n = snap_windows(m.active_windows());
        r.max_windows_seen = r.max_windows_seen.max(n.len() as u64);
        let holders: Vec<&WSnap> = n.iter().filter(|w| w.evs.iter().any(|x| x.0 == i as u32)).collect();
        match holders.len() {
            1 => {
                let h = holders[0];
                r.obs.accepted += 1;
                if !(h.start <= ts && ts < h.end) {
                    r.flag(i, CL, "new-event-in-a-window-whose-span-does-not-contain-it:fractional-duration", || {
                        format!("step {}: duration {} ms + {} us: e{}@{} is in window [{}, {})", i, d, frac_us, i, ev.ts, h.start.wrapping_sub(base), h.end.wrapping_sub(base))
                    });
                }
            }
            0 => r.flag(i, CL, "new-event-in-no-window:fractional-duration", || format!("step {}: duration {} ms + {} us, cap {}, window limit {}: after process_event(e{}@{}) no window holds the event; windows {}", i, d, frac_us, cap, max_windows, i, ev.ts, fmt_windows(&n, base))),
            k => r.flag(i, CL, "new-event-in-several-windows:fractional-duration", || format!("step {}: duration {} ms + {} us: e{}@{} is in {} windows {}", i, d, frac_us, i, ev.ts, k, fmt_windows(&n, base))),
        }
    }
}

fn agg_vec_matches(api: &'static str, got: &[AggregateResult], want: &[(Option<f64>, f64)], step: usize, r: &mut Run) {
    r.obs.aggregate_comparisons += want.len() as u64;
    let ok = got.len() == want.len()
        && got.iter().zip(want).all(|(g, (w, tol))| match num2(g) {
            Ok(g) => close(g, *w, *tol),
            Err(_) => false,
        });
    if !ok {
        r.flag(step, "aggregate", api, || format!("{} returned {:?}, the reference folds over the windows' events() (same order) give {:?}", api, got, want.iter().map(|w| w.0).collect::<Vec<_>>()));
    }
}

pub fn run_ws(d: u64, cap: usize, base: u64, via: bool, evs: &[Ev], r: &mut Run) {
    const CL: &str = "windowed-stream";
    let events: Vec<StreamEvent> = evs.iter().enumerate().map(|(i, e)| mk_event(i, base + e.ts, &e.pay)).collect();
    let cfg = WindowConfig::tumbling(Duration::from_millis(d)).with_max_events(cap);
    let build = |ev: Vec<StreamEvent>| -> WindowedStream {
        if via {
            DataStream::from_events(ev).window(cfg.clone())
        } else {
            WindowedStream::new(ev, cfg.clone())
        }
    };
    let step = evs.len().saturating_sub(1);
    r.obs.events_offered += evs.len() as u64;
    r.obs.steps_monitored += 1;
    let mut mx: Option<u64> = None;
    for e in evs {
        if mx.is_some_and(|m| e.ts < m) {
            r.obs.late_arrivals += 1;
        }
        mx = Some(mx.map_or(e.ts, |m| m.max(e.ts)));
        if (base + e.ts) % d == 0 || (base + e.ts + 1) % d == 0 {
            r.obs.exact_boundary_instants += 1;
        }
    }
    let ws = build(events.clone());
    let n = snap_windows(ws.windows());
    r.obs.windows_observed += n.len() as u64;
    r.max_windows_seen = r.max_windows_seen.max(n.len() as u64);
    if !tumbling_shape(CL, step, &n, d, base, r) {
        return;
    }
    // every offered event sits in the window of its aligned interval, cap drops aside
    let mut starts: Vec<u64> = evs.iter().map(|e| ((base + e.ts) / d) * d).collect();
    starts.sort();
    starts.dedup();
    for s in &starts {
        let c: Vec<(u32, u64)> = evs
            .iter()
            .enumerate()
            .filter(|(_, e)| ((base + e.ts) / d) * d == *s)
            .map(|(i, e)| (i as u32, base + e.ts))
            .collect();
        r.max_in_one_window = r.max_in_one_window.max(c.len() as u64);
        match n.iter().find(|w| w.start == *s) {
            None => {
                r.flag(step, CL, "event-in-no-window", || format!("no window for the aligned interval starting at {} although {} event(s) fall into it; windows {}", s.wrapping_sub(base), c.len(), fmt_windows(&n, base)));
            }
            Some(w) => {
                r.obs.accepted += w.evs.len() as u64;
                r.obs.dropped_by_cap += (c.len() - w.evs.len().min(c.len())) as u64;
                if let Some((cause, why)) = integrity(&c, None, &w.evs) {
                    r.flag(step, CL, cause, || format!("window [{}, {}): {}; windows {}", w.start.wrapping_sub(base), w.end.wrapping_sub(base), why, fmt_windows(&n, base)));
                } else if let Some(cause) = cap_drop_cause(&c, &c, &w.evs, cap, u32::MAX, None) {
                    let cause = if cause == "in-span-event-dropped-below-cap" { "event-in-no-window" } else { cause };
                    r.flag(step, CL, cause, || format!("cap {}: events of interval starting at {} are {} but its window holds {}", cap, s.wrapping_sub(base), fmt_snap(&c, base), fmt_snap(&w.evs, base)));
                }
            }
        }
    }
    for w in &n {
        if !starts.contains(&w.start) && !w.evs.is_empty() {
            r.flag(step, CL, "unexpected-new-window", || format!("window [{}, {}) holds events but no offered event is aligned to it", w.start.wrapping_sub(base), w.end.wrapping_sub(base)));
        }
    }
    // aggregates of every window, through the window methods and through the consuming stream APIs
    let aggs = AggSet::new();
    for w in ws.windows() {
        check_aggs(w, &aggs, step, base, r);
    }
    let folds = |ws: &WindowedStream| -> Vec<Fold> { ws.windows().iter().map(|w| ref_fold(w.events().iter())).collect() };
    {
        let s = build(events.clone());
        let f = folds(&s);
        let got = s.counts();
        r.obs.aggregate_comparisons += f.len() as u64;
        if got != f.iter().map(|x| x.count).collect::<Vec<_>>() {
            r.flag(step, "aggregate", "WindowedStream::counts", || format!("counts() = {:?}, windows hold {:?}", got, f.iter().map(|x| x.count).collect::<Vec<_>>()));
        }
    }
    {
        let s = build(events.clone());
        let f = folds(&s);
        let got = s.aggregate(Count);
        agg_vec_matches("WindowedStream::aggregate(Count)", &got, &f.iter().map(|x| (Some(x.count as f64), 0.0)).collect::<Vec<_>>(), step, r);
    }
    {
        let s = build(events.clone());
        let f = folds(&s);
        let got = s.aggregate(Sum::new(FIELD));
        agg_vec_matches("WindowedStream::aggregate(Sum)", &got, &f.iter().map(|x| (Some(x.sum), x.sum_tol())).collect::<Vec<_>>(), step, r);
    }
    {
        let s = build(events.clone());
        let f = folds(&s);
        let got = s.aggregate(Average::new(FIELD));
        agg_vec_matches("WindowedStream::aggregate(Average)", &got, &f.iter().map(|x| (x.avg(), x.avg_tol())).collect::<Vec<_>>(), step, r);
    }
    {
        let s = build(events.clone());
        let f = folds(&s);
        let got = s.aggregate(Min::new(FIELD));
        agg_vec_matches("WindowedStream::aggregate(Min)", &got, &f.iter().map(|x| (x.min, 0.0)).collect::<Vec<_>>(), step, r);
    }
    {
        let s = build(events);
        let f = folds(&s);
        let got = s.aggregate(Max::new(FIELD));
        agg_vec_matches("WindowedStream::aggregate(Max)", &got, &f.iter().map(|x| (x.max, 0.0)).collect::<Vec<_>>(), step, r);
    }
}

// ------------------------------------------------------------------------------------------
// StreamAlphaNode under the injected clock (single thread: the fake clock is process-wide)

pub fn run_node(sliding: bool, d: u64, cap: usize, base: u64, clock0: u64, ops: &[(u64, Ev)], from: usize, r: &mut Run) {
    let clause: &'static str = if sliding { "node-sliding" } else { "node-tumbling" };
    let spec = WindowSpec {
        duration: Duration::from_millis(d),
        window_type: if sliding { WindowType::Sliding } else { WindowType::Tumbling },
    };
    let mut node = StreamAlphaNode::new(SOURCE, None, Some(spec)).with_max_events(cap);
    let mut now = base + clock0;
    clock::set_ms(now);
    let mut last_accept_interval: Option<u64> = None;
    for (i, (adv, ev)) in ops.iter().enumerate() {
        now += adv;
        clock::set_ms(now);
        let ts = base + ev.ts;
        let e = mk_event(i, ts, &ev.pay);
        let me = (i as u32, ts);
        let monitored = i >= from;
        r.obs.events_offered += 1;
        let len_before = node.event_count();
        let p = if monitored { snap(node.get_events().iter()) } else { Vec::new() };
        let reads0 = clock::fake_reads();
        let acc = node.process_event(&e);
        let reads = clock::fake_reads() - reads0;
        r.obs.node_process_event_calls += 1;
        r.obs.node_fake_clock_reads_inside_process_event += reads;
        if reads == 0 {
            r.obs.node_calls_without_clock_read += 1;
        }
        if acc {
            r.obs.accepted += 1;
        } else {
            r.obs.rejected += 1;
        }
        let len_after = node.event_count();
        let gone = (len_before + acc as usize).saturating_sub(len_after) as u64;
        let interval = (now / d) * d;
        let rolled = acc && last_accept_interval.is_some_and(|x| x != interval);
        if rolled {
            r.obs.node_interval_rollovers += 1;
        }
        let prev_accept_interval = last_accept_interval;
        if acc {
            last_accept_interval = Some(interval);
        }
        if !monitored {
            r.obs.evicted_by_time += gone;
            continue;
        }
        r.obs.steps_monitored += 1;
        r.obs.windows_observed += 1;
        let n = snap(node.get_events().iter());
        r.max_in_one_window = r.max_in_one_window.max(n.len() as u64);
        // the current span
        let (lo, hi_incl) = if sliding { (now.saturating_sub(d), now) } else { (interval, interval + d - 1) };
        let in_span = |t: u64| t >= lo && t <= hi_incl;
        if ts == lo || ts == hi_incl || ts + 1 == lo || ts == hi_incl + 1 {
            r.obs.exact_boundary_instants += 1;
        }
        // a future timestamp within d of now: "within the duration from now" can be read either way
        let open = sliding && ts > now && ts <= now + d;
        if open {
            r.obs.node_future_events_reading_left_open += 1;
        }
        let should = if open { acc } else { in_span(ts) };
        let describe = |p: &Snap, n: &Snap| {
            format!(
                "clock {} span [{}, {}] duration {} cap {}: process_event(e{}@{}) -> {}; before {} after {}",
                now.wrapping_sub(base),
                lo.wrapping_sub(base),
                hi_incl.wrapping_sub(base),
                d,
                cap,
                i,
                ev.ts,
                acc,
                fmt_snap(p, base),
                fmt_snap(n, base)
            )
        };
        if acc != should {
            let cause = if ts == lo {
                "timestamp-equals-span-start"
            } else if ts == hi_incl {
                "timestamp-equals-last-instant-of-span"
            } else if ts + 1 == lo {
                "timestamp-one-before-span"
            } else if ts == hi_incl + 1 {
                "timestamp-one-after-span"
            } else if ts < lo {
                "timestamp-before-span"
            } else if ts > hi_incl {
                "timestamp-after-span"
            } else {
                "timestamp-inside-span"
            };
            r.flag(i, clause, format!("acceptance|{}", cause), || format!("step {}: accepted = {} but inside-the-current-span = {}; {}", i, acc, should, describe(&p, &n)));
            continue;
        }
        if let Some((cause, why)) = integrity(&p, if acc { Some(me) } else { None }, &n) {
            r.flag(i, clause, cause, || format!("step {}: {}; {}", i, why, describe(&p, &n)));
            continue;
        }
        if acc {
            // after an accepted event nothing outside the current span may be retained ...
            let outside = |t: u64| if sliding { t < lo } else { !in_span(t) };
            let mut all = p.clone();
            all.push(me);
            if let Some((cause, x)) = stale_cause(&all, &n, outside) {
                r.flag(i, clause, cause, || format!("step {}: e{}@{} is retained although it lies outside the current span; {}", i, x.0, x.1.wrapping_sub(base), describe(&p, &n)));
                continue;
            }
            // ... and everything inside it is still there, cap drops aside
            let mut c: Vec<(u32, u64)> = p.iter().copied().filter(|x| !outside(x.1)).collect();
            c.push(me);
            r.obs.evicted_by_time += (p.len() + 1 - c.len()) as u64;
            r.obs.dropped_by_cap += (c.len() - n.len().min(c.len())) as u64;
            if let Some(cause) = cap_drop_cause(&all, &c, &n, cap, me.0, Some(lo)) {
                let cause = if cause == "new-event-itself-dropped" && !sliding && prev_accept_interval.is_some_and(|x| x != interval) {
                    "accepted-event-lost-on-interval-rollover"
                } else {
                    cause
                };
                r.flag(i, clause, cause, || format!("step {}: an event inside the current span is gone and the cap does not explain it; {}", i, describe(&p, &n)));
            }
        } else {
            // a rejected event may trigger eviction of events outside the span, nothing else
            let outside = |t: u64| if sliding { t < lo } else { !in_span(t) };
            for x in &p {
                if !n.iter().any(|y| y.0 == x.0) {
                    if outside(x.1) {
                        r.obs.evicted_by_time += 1;
                    } else {
                        r.flag(i, clause, "rejected-event-altered-window", || format!("step {}: e{}@{} vanished while a rejected event was processed; {}", i, x.0, x.1.wrapping_sub(base), describe(&p, &n)));
                    }
                }
            }
        }
    }
}

// ------------------------------------------------------------------------------------------

/// Run one case; steps before `from` are executed but not monitored (used by the exhaustive
/// enumeration, where every proper prefix is a case of its own). Replay uses `from = 0`.
pub fn run_case(c: &Case, from: usize) -> Run {
    let mut r = Run::default();
    match c {
        Case::Tw { sliding, start, d, cap, base, ops } => run_tw(*sliding, *start, *d, *cap, *base, ops, from, &mut r),
        Case::Wm { d, cap, max_windows, base, evs, frac_us } => run_wm(*d, *cap, *max_windows, *base, evs, from, *frac_us, &mut r),
        Case::Ws { d, cap, base, via_datastream, evs } => run_ws(*d, *cap, *base, *via_datastream, evs, &mut r),
        Case::Node { sliding, d, cap, base, clock0, ops } => run_node(*sliding, *d, *cap, *base, *clock0, ops, from, &mut r),
    }
    r
}

/// The stated non-triviality rule, per kind.
pub fn nontrivial(c: &Case, r: &Run) -> bool {
    let o = &r.obs;
    match c {
        Case::Tw { ops, .. } => {
            let has_record = ops.iter().any(|(op, _)| *op == TwOp::Record);
            if has_record {
                o.evicted_by_time + o.dropped_by_cap > 0 && o.record_steps_with_retained_older_event > 0
            } else {
                o.accepted > 0 && o.rejected > 0
            }
        }
        Case::Wm { .. } | Case::Ws { .. } => r.max_windows_seen >= 2 && r.max_in_one_window >= 2,
        Case::Node { .. } => o.accepted > 0 && (o.rejected > 0 || o.evicted_by_time > 0),
    }
}
