//! rre-verif: runtime-monitoring harness for rust-rule-engine (see /verif/DESIGN.md).
pub mod child;
pub mod clock;
pub mod core;
pub mod grl;
pub mod pan;
pub mod quiet;
pub mod rng;
pub mod sched;

pub use crate::core::*;
pub use crate::rng::Rng;
pub use serde_json::json;
