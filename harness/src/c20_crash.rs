//! C20, fault part: crash-point enumeration of a real `checkpoint()` call with strace
//! (SIGKILL on entry to every syscall the call issues, one run per syscall), errno injection on
//! every syscall of the call, byte-prefix truncation and zero-filled tails of the victim's state
//! file, and synthesised directory states. After every fault a FRESH StateStore on the same
//! directory is asked to restore every earlier checkpoint and the interrupted one.

use crate::hist::*;
use rre_verif::*;
use rust_rule_engine::streaming::state::StateStore;
use rust_rule_engine::types::Value;
use std::collections::BTreeMap;
use std::path::{Path, PathBuf};
use std::process::Command;
use std::sync::atomic::{AtomicUsize, Ordering};

pub const MARK_BEGIN: &str = "/VERIF_C20_WINDOW_BEGIN";
pub const MARK_END: &str = "/VERIF_C20_WINDOW_END";
const TRACE_SET: &str = "trace=%file,%desc";

// ------------------------------------------------------------------------------------------
// the child: builds the store, marks the window around the LAST checkpoint op
// ------------------------------------------------------------------------------------------

fn mark(path: &str) {
    let mut b = path.as_bytes().to_vec();
    b.push(0);
    unsafe {
        libc::access(b.as_ptr() as *const libc::c_char, libc::F_OK);
    }
}

/// `--worker crash-child <scenario.json> <store dir> <meta dir>`
pub fn crash_child(args: &[String]) -> i32 {
    if args.len() < 3 {
        return 2;
    }
    let Ok(text) = std::fs::read_to_string(&args[0]) else { return 2 };
    let Ok(j) = serde_json::from_str::<Json>(&text) else { return 2 };
    let Some(h) = Hist::from_json(&j) else { return 2 };
    let store_dir = PathBuf::from(&args[1]);
    let meta = PathBuf::from(&args[2]);
    let virt = clock::available();
    let mut now = BASE_MS;
    if virt {
        clock::set_ms(now);
    }
    let mut store = StateStore::with_config(h.config(&store_dir));
    let last = h.ops.len() - 1;
    let mut ids = String::new();
    let mut ncp = 0;
    for (i, op) in h.ops.iter().enumerate() {
        match op {
            Op::Put { k, v } => {
                let _ = store.put(h.keys[*k].clone(), v.clone());
            }
            Op::PutTtl { k, v, ttl } => {
                let _ = store.put_with_ttl(h.keys[*k].clone(), v.clone(), std::time::Duration::from_millis(*ttl));
            }
            Op::Update { k, v } => {
                let _ = store.update(&h.keys[*k], v.clone());
            }
            Op::Delete { k } => {
                let _ = store.delete(&h.keys[*k]);
            }
            Op::Advance { d } => {
                if virt {
                    now += d;
                    clock::set_ms(now);
                } else if *d > 0 {
                    std::thread::sleep(std::time::Duration::from_millis(*d + 1));
                }
            }
            Op::Restore { .. } => {}
            Op::Cleanup => {
                let _ = store.cleanup_expired();
            }
            Op::Checkpoint if i != last => match store.checkpoint(format!("cp{}", ncp)) {
                Ok(id) => {
                    ncp += 1;
                    ids.push_str(&id);
                    ids.push('\n');
                    if std::fs::write(meta.join("ids"), &ids).is_err() {
                        return 4;
                    }
                }
                Err(e) => {
                    let _ = std::fs::write(meta.join("setup-error"), format!("{}", e));
                    return 3;
                }
            },
            Op::Checkpoint => {
                mark(MARK_BEGIN);
                let r = store.checkpoint(format!("cp{}", ncp));
                mark(MARK_END);
                let listed: Vec<String> = store.list_checkpoints().into_iter().map(|c| c.id).collect();
                let res = match &r {
                    Ok(id) => json!({"result": "ok", "id": id, "listed": listed}),
                    Err(e) => json!({"result": "err", "error": format!("{}", e), "listed": listed}),
                };
                if std::fs::write(meta.join("result"), res.to_string()).is_err() {
                    return 4;
                }
                if args.get(3).map(|s| s.as_str()) == Some("survive") {
                    // the process survived the victim call: carry on with the same store
                    let mut successes: Vec<String> = ids.lines().map(|l| l.to_string()).collect();
                    let victim_ok = match &r {
                        Ok(id) => {
                            successes.push(id.clone());
                            true
                        }
                        Err(_) => false,
                    };
                    let n = h.max_checkpoints.max(1);
                    let mut rounds = Vec::new();
                    for j in 0..n {
                        if virt {
                            now += 1;
                            clock::set_ms(now);
                        } else {
                            std::thread::sleep(std::time::Duration::from_millis(2));
                        }
                        let _ = store.put(h.keys[0].clone(), Value::String(format!("after-the-fault-{}", j)));
                        match store.checkpoint(format!("post{}", j)) {
                            Ok(id) => successes.push(id),
                            Err(e) => {
                                rounds.push(json!({"round": j, "follow_up_checkpoint_error": format!("{}", e)}));
                                continue;
                            }
                        }
                        // what retention still owes: the last n successful checkpoints
                        let owed: Vec<String> = successes.iter().rev().take(n).cloned().collect();
                        let mut restores = Vec::new();
                        for id in owed.iter().rev() {
                            let res = store.restore(id);
                            restores.push(json!({"id": id, "ok": res.is_ok(), "error": res.err().map(|e| format!("{}", e))}));
                        }
                        rounds.push(json!({"round": j, "successful_so_far": successes, "owed": owed, "restores": restores}));
                    }
                    let rep = json!({"victim_ok": victim_ok, "max_checkpoints": n, "rounds": rounds});
                    if std::fs::write(meta.join("survivor"), rep.to_string()).is_err() {
                        return 4;
                    }
                }
            }
        }
    }
    0
}

// ------------------------------------------------------------------------------------------
// scenarios
// ------------------------------------------------------------------------------------------

#[derive(Clone, Debug)]
pub struct Scenario {
    pub name: String,
    /// restore-free history whose LAST op is the victim checkpoint
    pub hist: Hist,
}

fn sc(name: &str, max: usize, ops: Vec<Op>) -> Scenario {
    Scenario {
        name: name.to_string(),
        hist: Hist {
            real: false,
            keys: plain_keys(),
            max_checkpoints: max,
            default_ttl: None,
            distinct_ms: false,
            repeat: 1,
            ops,
        },
    }
}

fn big_value(n: usize) -> Value {
    let mut m = std::collections::HashMap::new();
    m.insert("list".to_string(), Value::Array((0..n as i64).map(Value::Integer).collect()));
    m.insert("text".to_string(), Value::String("héllo ✓ \"quoted\" \\ \n".repeat(n / 8 + 1)));
    m.insert("half".to_string(), Value::Number(0.5));
    Value::Object(m)
}

pub fn fixed_scenarios(thorough: bool) -> Vec<Scenario> {
    let i = Value::Integer;
    let s = |x: &str| Value::String(x.to_string());
    let mut v = vec![
        sc(
            "basic: c1, later writes, c2 (5 ms apart)",
            3,
            vec![
                Op::Put { k: 0, v: i(1) },
                Op::Put { k: 1, v: s("one") },
                Op::Checkpoint,
                Op::Advance { d: 5 },
                Op::Put { k: 0, v: i(2) },
                Op::Delete { k: 1 },
                Op::Put { k: 2, v: Value::Array(vec![i(1), Value::Number(-0.0), Value::Null]) },
                Op::Checkpoint,
            ],
        ),
        sc(
            "same millisecond: c1 and c2 with the clock frozen",
            3,
            vec![
                Op::Put { k: 0, v: i(1) },
                Op::Checkpoint,
                Op::Put { k: 0, v: i(2) },
                Op::Put { k: 1, v: i(3) },
                Op::Checkpoint,
            ],
        ),
        sc(
            "retention max_checkpoints=1: writing c2 retires c1",
            1,
            vec![
                Op::Put { k: 0, v: i(1) },
                Op::Checkpoint,
                Op::Advance { d: 2 },
                Op::Put { k: 0, v: i(2) },
                Op::Checkpoint,
            ],
        ),
        sc(
            "retention max_checkpoints=2: c0, c1, then c2 retires c0",
            2,
            vec![
                Op::Put { k: 0, v: i(0) },
                Op::Checkpoint,
                Op::Advance { d: 1 },
                Op::Put { k: 1, v: s("x") },
                Op::Checkpoint,
                Op::Advance { d: 1 },
                Op::Update { k: 0, v: i(7) },
                Op::Checkpoint,
            ],
        ),
        sc(
            "same millisecond with max_checkpoints=1",
            1,
            vec![Op::Put { k: 0, v: i(1) }, Op::Checkpoint, Op::Put { k: 0, v: i(2) }, Op::Checkpoint],
        ),
        sc(
            "empty victim state: everything deleted before c2",
            3,
            vec![
                Op::Put { k: 0, v: i(1) },
                Op::Checkpoint,
                Op::Advance { d: 3 },
                Op::Delete { k: 0 },
                Op::Checkpoint,
            ],
        ),
        sc(
            "ttl: a key expires between c1 and c2; hostile strings",
            3,
            vec![
                Op::PutTtl { k: 0, v: s("short-lived"), ttl: 3 },
                Op::Put { k: 1, v: s("}\n{\"a\": 1}\u{0}\"\\") },
                Op::Checkpoint,
                Op::Advance { d: 10 },
                Op::Put { k: 2, v: s("héllo ✓ 🦀") },
                Op::Checkpoint,
            ],
        ),
        sc(
            "larger state: nested object with a 200-element array and long strings",
            3,
            vec![
                Op::Put { k: 0, v: big_value(64) },
                Op::Checkpoint,
                Op::Advance { d: 7 },
                Op::Put { k: 1, v: big_value(200) },
                Op::Update { k: 0, v: i(1) },
                Op::Checkpoint,
            ],
        ),
    ];
    if thorough {
        v.push(sc(
            "large state: nested object with a 4000-element array and long strings",
            3,
            vec![
                Op::Put { k: 0, v: big_value(500) },
                Op::Checkpoint,
                Op::Advance { d: 7 },
                Op::Put { k: 1, v: big_value(4000) },
                Op::Checkpoint,
            ],
        ));
        v.push(sc(
            "four checkpoints, max_checkpoints=3: c3 retires c0",
            3,
            vec![
                Op::Put { k: 0, v: i(0) },
                Op::Checkpoint,
                Op::Advance { d: 1 },
                Op::Put { k: 0, v: i(1) },
                Op::Checkpoint,
                Op::Advance { d: 1 },
                Op::Put { k: 0, v: i(2) },
                Op::Checkpoint,
                Op::Advance { d: 1 },
                Op::Put { k: 0, v: i(3) },
                Op::Checkpoint,
            ],
        ));
    }
    v
}

/// Random scenario: a random restore-free history with >= 2 checkpoints whose last op is a
/// checkpoint, values restricted to ones a JSON text round trip preserves (the float finding is
/// the history monitor's business), TTL instants away from the undecided boundary.
pub fn random_scenario(rng: &mut Rng, n: usize) -> Scenario {
    loop {
        let feat = ValFeat::default();
        let len = 3 + rng.below(7);
        let mut ops = Vec::new();
        let mut ncp = 0;
        for _ in 0..len {
            let r = rng.below(100);
            ops.push(if r < 35 {
                Op::Put { k: rng.below(3), v: gen_value(rng, feat, 2) }
            } else if r < 45 {
                Op::PutTtl { k: rng.below(3), v: gen_value(rng, feat, 1), ttl: *rng.pick(&[2u64, 5]) }
            } else if r < 55 {
                Op::Update { k: rng.below(3), v: gen_value(rng, feat, 2) }
            } else if r < 65 {
                Op::Delete { k: rng.below(3) }
            } else if r < 85 {
                ncp += 1;
                Op::Checkpoint
            } else {
                Op::Advance { d: *rng.pick(&[0u64, 1, 3, 7]) }
            });
        }
        if ncp == 0 {
            let pos = rng.below(ops.len());
            ops.insert(pos, Op::Checkpoint);
        }
        ops.push(Op::Checkpoint);
        // keep checkpoints at least 1 ms apart (the same-millisecond case has its own families)
        let mut spaced = Vec::new();
        let mut since_cp: Option<u64> = None;
        for op in ops {
            match &op {
                Op::Advance { d } => {
                    if let Some(s) = since_cp.as_mut() {
                        *s += d;
                    }
                }
                Op::Checkpoint => {
                    if since_cp == Some(0) {
                        spaced.push(Op::Advance { d: 1 });
                    }
                    since_cp = Some(0);
                }
                _ => {}
            }
            spaced.push(op);
        }
        let ops = spaced;
        let h = Hist {
            real: false,
            keys: key_sets(rng),
            max_checkpoints: 1 + rng.below(3),
            default_ttl: None,
            distinct_ms: false,
            repeat: 1,
            ops,
        };
        let safe = h.ops.iter().all(|o| match o {
            Op::Put { v, .. } | Op::PutTtl { v, .. } | Op::Update { v, .. } => roundtrip_safe(v),
            _ => true,
        });
        if safe && simulate(&h).is_some() {
            return Scenario { name: format!("random scenario #{}", n), hist: h };
        }
    }
}

// ------------------------------------------------------------------------------------------
// faults
// ------------------------------------------------------------------------------------------

#[derive(Clone, Debug)]
pub enum Fault {
    /// no fault: the completed run (baseline)
    None,
    /// SIGKILL on entry to the nth (1-based) syscall of this kind inside the window
    Kill { syscall: String, nth: usize },
    /// the nth syscall of this kind inside the window fails with errno
    Errno { syscall: String, nth: usize, errno: String },
    /// as `Errno`, but the process carries on with the same store afterwards: a few more writes
    /// and checkpoints, then every checkpoint the retention rule still owes is restored
    ErrnoSurvive { syscall: String, nth: usize, errno: String },
    /// victim's state file cut to its first `offset` bytes
    Truncate { offset: usize },
    /// victim's state file keeps its first `offset` bytes, the rest reads as zero bytes
    ZeroFill { offset: usize },
    /// synthesised directory states of the victim
    DirState { state: String },
}

impl Fault {
    pub fn to_json(&self) -> Json {
        match self {
            Fault::None => json!({"type": "none"}),
            Fault::Kill { syscall, nth } => json!({"type": "kill", "syscall": syscall, "nth_in_window": nth}),
            Fault::Errno { syscall, nth, errno } => {
                json!({"type": "errno", "syscall": syscall, "nth_in_window": nth, "errno": errno})
            }
            Fault::ErrnoSurvive { syscall, nth, errno } => {
                json!({"type": "errno-then-carry-on", "syscall": syscall, "nth_in_window": nth, "errno": errno})
            }
            Fault::Truncate { offset } => json!({"type": "truncate", "offset": offset}),
            Fault::ZeroFill { offset } => json!({"type": "zero-fill", "offset": offset}),
            Fault::DirState { state } => json!({"type": "dir-state", "state": state}),
        }
    }
    pub fn from_json(j: &Json) -> Option<Fault> {
        let s = |k: &str| j[k].as_str().map(|s| s.to_string());
        let n = |k: &str| j[k].as_u64().map(|n| n as usize);
        Some(match j["type"].as_str()? {
            "none" => Fault::None,
            "kill" => Fault::Kill { syscall: s("syscall")?, nth: n("nth_in_window")? },
            "errno" => Fault::Errno { syscall: s("syscall")?, nth: n("nth_in_window")?, errno: s("errno")? },
            "errno-then-carry-on" => Fault::ErrnoSurvive { syscall: s("syscall")?, nth: n("nth_in_window")?, errno: s("errno")? },
            "truncate" => Fault::Truncate { offset: n("offset")? },
            "zero-fill" => Fault::ZeroFill { offset: n("offset")? },
            "dir-state" => Fault::DirState { state: s("state")? },
            _ => return None,
        })
    }
}

pub fn crash_case_json(s: &Scenario, f: &Fault) -> Json {
    json!({"kind": "crash", "name": s.name, "scenario": s.hist.to_json(), "fault": f.to_json()})
}

// ------------------------------------------------------------------------------------------
// strace plumbing
// ------------------------------------------------------------------------------------------

pub fn strace_usable(scratch: &Path) -> Result<(), String> {
    let log = scratch.join("strace-probe.log");
    let mut cmd = Command::new("strace");
    cmd.arg("-o")
        .arg(&log)
        .arg("-e")
        .arg("trace=%file")
        .arg("-e")
        .arg("inject=chdir:error=ENOSPC:when=1")
        .arg("/bin/true");
    match child::run_cmd(cmd, b"", &child::Limits { cpu_s: 20, as_bytes: None, wall_s: 60.0, stack_bytes: None }) {
        Ok(o) if o.ok() => {
            let ok = std::fs::read_to_string(&log).map(|t| t.contains("execve(")).unwrap_or(false);
            let _ = std::fs::remove_file(&log);
            if ok {
                Ok(())
            } else {
                Err("strace ran but produced no trace".into())
            }
        }
        Ok(o) => Err(format!("strace probe failed: {}", o.describe())),
        Err(e) => Err(format!("strace cannot be started: {}", e)),
    }
}

#[derive(Debug, Default, Clone)]
pub struct Trace {
    /// (syscall name, raw line) of every traced syscall, in order
    pub calls: Vec<(String, String)>,
    pub begin: Option<usize>,
    pub end: Option<usize>,
    pub killed: bool,
    pub exited: Option<i32>,
}

pub fn parse_trace(path: &Path) -> Trace {
    let mut t = Trace::default();
    let Ok(text) = std::fs::read(path) else { return t };
    let text = String::from_utf8_lossy(&text);
    for line in text.lines() {
        if line.starts_with("+++ killed by SIGKILL") {
            t.killed = true;
            continue;
        }
        if let Some(rest) = line.strip_prefix("+++ exited with ") {
            t.exited = rest.split_whitespace().next().and_then(|s| s.parse().ok());
            continue;
        }
        if line.starts_with("---") || line.starts_with("+++") {
            continue;
        }
        let Some(p) = line.find('(') else { continue };
        let name = &line[..p];
        if name.is_empty() || !name.chars().all(|c| c.is_ascii_alphanumeric() || c == '_') {
            continue;
        }
        if line.contains(MARK_BEGIN) {
            t.begin = Some(t.calls.len());
        } else if line.contains(MARK_END) {
            t.end = Some(t.calls.len());
        }
        t.calls.push((name.to_string(), line.to_string()));
    }
    t
}

impl Trace {
    /// syscalls strictly between the markers: (kind, ordinal of that kind since process start,
    /// ordinal of that kind inside the window)
    pub fn window(&self) -> Vec<(String, usize, usize)> {
        let (Some(b), Some(e)) = (self.begin, self.end) else { return vec![] };
        let mut global: BTreeMap<&str, usize> = BTreeMap::new();
        let mut inwin: BTreeMap<&str, usize> = BTreeMap::new();
        let mut out = Vec::new();
        for (i, (k, _)) in self.calls.iter().enumerate() {
            *global.entry(k.as_str()).or_insert(0) += 1;
            if i > b && i < e {
                *inwin.entry(k.as_str()).or_insert(0) += 1;
                out.push((k.clone(), global[k.as_str()], inwin[k.as_str()]));
            }
        }
        out
    }
}

pub struct RunDirs {
    pub root: PathBuf,
    pub store: PathBuf,
    pub meta: PathBuf,
    pub log: PathBuf,
}

static RUN_SEQ: AtomicUsize = AtomicUsize::new(0);

pub fn fresh_run_dirs(scratch: &Path) -> std::io::Result<RunDirs> {
    let n = RUN_SEQ.fetch_add(1, Ordering::SeqCst);
    let root = scratch.join(format!("run{}", n));
    let _ = std::fs::remove_dir_all(&root);
    std::fs::create_dir_all(root.join("meta"))?;
    Ok(RunDirs { store: root.join("store"), meta: root.join("meta"), log: root.join("strace.log"), root })
}

/// Run the crash child under strace with an optional `-e inject=` expression.
pub fn run_child(scen_path: &Path, d: &RunDirs, inject: Option<&str>) -> Result<(child::ChildOutcome, Trace), String> {
    run_child_mode(scen_path, d, inject, false)
}

pub fn run_child_mode(scen_path: &Path, d: &RunDirs, inject: Option<&str>, survive: bool) -> Result<(child::ChildOutcome, Trace), String> {
    let exe = std::env::current_exe().map_err(|e| e.to_string())?;
    let mut cmd = Command::new("strace");
    cmd.arg("-o").arg(&d.log).arg("-e").arg(TRACE_SET);
    if let Some(i) = inject {
        cmd.arg("-e").arg(format!("inject={}", i));
    }
    cmd.arg(exe)
        .arg("--worker")
        .arg("crash-child")
        .arg(scen_path)
        .arg(&d.store)
        .arg(&d.meta);
    if survive {
        cmd.arg("survive");
    }
    let o = child::run_cmd(cmd, b"", &child::Limits { cpu_s: 30, as_bytes: None, wall_s: 300.0, stack_bytes: None })
        .map_err(|e| format!("cannot run strace: {}", e))?;
    let t = parse_trace(&d.log);
    Ok((o, t))
}

// ------------------------------------------------------------------------------------------
// the oracle after a fault
// ------------------------------------------------------------------------------------------

pub struct Expect {
    /// ids of the earlier checkpoints, in order
    pub earlier_ids: Vec<String>,
    /// model snapshots of all checkpoint ops (earlier ones, then the victim)
    pub snaps: Vec<Snap>,
    /// id of the victim as returned in the fault-free run (deterministic under the frozen clock)
    pub victim_id: Option<String>,
    pub max_checkpoints: usize,
}

fn read_state(store: &StateStore, h: &Hist) -> Result<Vec<Option<Value>>, String> {
    let mut out = Vec::new();
    for k in 0..3 {
        out.push(store.get(&h.keys[k]).map_err(|e| format!("get failed: {}", e))?);
    }
    let mut ks = store.keys();
    ks.sort();
    let mut want: Vec<String> = (0..3).filter(|k| out[*k].is_some()).map(|k| h.keys[k].clone()).collect();
    want.sort();
    if ks != want {
        return Err(format!("keys() {:?} disagrees with get() {:?}", ks, want));
    }
    if store.len() != want.len() {
        return Err(format!("len() {} disagrees with get() {:?}", store.len(), want));
    }
    Ok(out)
}

enum Restored {
    Exact,
    Err(String),
    Wrong(String),
}

fn try_restore(dir: &Path, h: &Hist, id: &str, snap: &Snap) -> Result<Restored, pan::PanicInfo> {
    pan::catch_frames(|| {
        let mut s = StateStore::with_config(h.config(dir));
        // something in memory that a restore must replace
        let _ = s.put("__verif_preexisting__", Value::Integer(-1));
        match s.restore(id) {
            Err(e) => Restored::Err(format!("{}", e)),
            Ok(()) => match read_state(&s, h) {
                Err(e) => Restored::Wrong(e),
                Ok(view) => {
                    if snap_eq_view(snap, &view) && s.get("__verif_preexisting__").ok().flatten().is_none() {
                        Restored::Exact
                    } else {
                        Restored::Wrong(view_show(&view, &h.keys))
                    }
                }
            },
        }
    })
}

fn fs_state(dir: &Path, id: &str) -> &'static str {
    let d = dir.join(id);
    if !d.exists() {
        return "directory-missing";
    }
    let f = d.join("state.json");
    if !f.exists() {
        return "state-file-missing";
    }
    match std::fs::read(&f) {
        Ok(b) if serde_json::from_slice::<Json>(&b).is_ok() => "state-file-parses",
        Ok(_) => "state-file-not-json",
        Err(_) => "state-file-unreadable",
    }
}

/// What the child reported about the victim call, if it survived it.
#[derive(Clone, Debug)]
#[allow(dead_code)]
pub enum CallResult {
    Unknown,
    Ok(String),
    Err(String),
}

/// The statement's crash clauses, checked with fresh stores on `dir`.
pub fn verify_after_fault(dir: &Path, h: &Hist, ex: &Expect, call: &CallResult, fault_label: &str) -> Option<Failure> {
    let n_earlier = ex.earlier_ids.len();
    let victim_snap = &ex.snaps[n_earlier];
    // the victim first (needed to decide whether retention may already have retired an earlier one)
    let victim_id: Option<String> = match call {
        CallResult::Ok(id) => Some(id.clone()),
        _ => ex.victim_id.clone(),
    };
    let mut victim_complete = false;
    let mut candidates: Vec<String> = victim_id.iter().cloned().collect();
    // anything else under the backend path that is not an earlier checkpoint is part of the
    // interrupted one (e.g. temp directories of another write protocol)
    if let Ok(rd) = std::fs::read_dir(dir) {
        for e in rd.flatten() {
            let name = e.file_name().to_string_lossy().to_string();
            if !ex.earlier_ids.contains(&name) && !candidates.contains(&name) {
                candidates.push(name);
            }
        }
    }
    for (ci, id) in candidates.iter().enumerate() {
        match try_restore(dir, h, id, victim_snap) {
            Err(p) => {
                return Some(Failure {
                    clause: "no-panic".into(),
                    cause: format!("{}|{}", p.class(), p.frame),
                    detail: format!("[{}] restore({:?}) panicked: {} at {}:{}", fault_label, id, p.msg, p.file, p.line),
                })
            }
            Ok(Restored::Exact) => {
                if ci == 0 || victim_id.is_none() {
                    victim_complete = true;
                }
            }
            Ok(Restored::Err(e)) => {
                if ci == 0 && victim_id.is_some() {
                    if let CallResult::Ok(_) = call {
                        return Some(Failure {
                            clause: "checkpoint-ok-but-unrestorable".into(),
                            cause: format!("{}:{}", fault_cause(fault_label), fs_state(dir, id)),
                            detail: format!(
                                "[{}] checkpoint() returned Ok({:?}) but a fresh store cannot restore it: Err({})",
                                fault_label, id, e
                            ),
                        });
                    }
                }
            }
            Ok(Restored::Wrong(got)) => {
                let cause = match std::fs::read(dir.join(id).join("state.json")) {
                    Ok(b) => match serde_json::from_slice::<Json>(&b) {
                        Ok(Json::Object(o)) if o.len() < victim_snap.len() => "state-file-holds-subset-of-entries",
                        Ok(_) => "state-file-holds-other-state",
                        Err(_) => "state-file-not-json-yet-restored",
                    },
                    Err(_) => "no-state-file-yet-restored",
                };
                return Some(Failure {
                    clause: "interrupted-checkpoint-partial-state".into(),
                    cause: format!("{}:{}", fault_cause(fault_label), cause),
                    detail: format!(
                        "[{}] restore({:?}) of the interrupted checkpoint returned Ok with {} but its complete state is {}",
                        fault_label,
                        id,
                        got,
                        snap_show(victim_snap, &h.keys)
                    ),
                });
            }
        }
    }
    // every earlier checkpoint
    let total_if_done = n_earlier + 1;
    for (j, id) in ex.earlier_ids.iter().enumerate() {
        // retention: among t checkpoints taken, the newest max_checkpoints must survive
        let retired_before_the_call = j + ex.max_checkpoints < n_earlier;
        let may_be_retired = j + ex.max_checkpoints < total_if_done;
        match try_restore(dir, h, id, &ex.snaps[j]) {
            Err(p) => {
                return Some(Failure {
                    clause: "no-panic".into(),
                    cause: format!("{}|{}", p.class(), p.frame),
                    detail: format!("[{}] restore({:?}) panicked: {} at {}:{}", fault_label, id, p.msg, p.file, p.line),
                })
            }
            Ok(Restored::Exact) => {}
            Ok(Restored::Wrong(got)) => {
                return Some(Failure {
                    clause: "earlier-checkpoint-damaged".into(),
                    cause: format!("{}:restores-to-different-state", fault_cause(fault_label)),
                    detail: format!(
                        "[{}] earlier checkpoint #{} ({:?}) now restores to {} instead of {}",
                        fault_label,
                        j,
                        id,
                        got,
                        snap_show(&ex.snaps[j], &h.keys)
                    ),
                })
            }
            Ok(Restored::Err(e)) => {
                if retired_before_the_call {
                    continue; // retention had retired it before the interrupted call began
                }
                if may_be_retired && victim_complete {
                    continue; // retention retired it after the new checkpoint was complete
                }
                let cause = if may_be_retired {
                    "retired-by-retention-before-the-new-checkpoint-was-complete".to_string()
                } else {
                    fs_state(dir, id).to_string()
                };
                return Some(Failure {
                    clause: "earlier-checkpoint-damaged".into(),
                    cause: format!("{}:{}", fault_cause(fault_label), cause),
                    detail: format!(
                        "[{}] earlier checkpoint #{} ({:?}, max_checkpoints {}, {} earlier) can no longer be restored: Err({}); interrupted checkpoint restorable: {}",
                        fault_label, j, id, ex.max_checkpoints, n_earlier, e, victim_complete
                    ),
                });
            }
        }
    }
    None
}

/// the fault family as it appears in signatures (no indices, no offsets)
fn fault_cause(label: &str) -> String {
    label.split_whitespace().next().unwrap_or("fault").to_string()
}

// ------------------------------------------------------------------------------------------
// one family
// ------------------------------------------------------------------------------------------

pub struct Family {
    pub scen: Scenario,
    pub scen_path: PathBuf,
    pub expect: Expect,
    pub window: Vec<(String, usize, usize)>,
    /// completed store directory of the dry run (kept for truncation)
    pub done: RunDirs,
    pub victim_file_len: usize,
}

pub enum Prep {
    Ready(Box<Family>),
    /// a violation already in the fault-free run (e.g. colliding ids): the family is not enumerated
    Violation(Violation),
    Inconclusive(String),
}

fn read_ids(meta: &Path) -> Vec<String> {
    std::fs::read_to_string(meta.join("ids"))
        .map(|t| t.lines().map(|l| l.to_string()).filter(|l| !l.is_empty()).collect())
        .unwrap_or_default()
}

fn read_result(meta: &Path) -> CallResult {
    let Ok(t) = std::fs::read_to_string(meta.join("result")) else { return CallResult::Unknown };
    let Ok(j) = serde_json::from_str::<Json>(&t) else { return CallResult::Unknown };
    match j["result"].as_str() {
        Some("ok") => CallResult::Ok(j["id"].as_str().unwrap_or("").to_string()),
        Some("err") => CallResult::Err(j["error"].as_str().unwrap_or("").to_string()),
        _ => CallResult::Unknown,
    }
}

/// Fault-free traced run: learns the window, the ids and checks the completed state.
pub fn prepare(scen: &Scenario, scratch: &Path, idx: usize) -> Prep {
    let h = &scen.hist;
    let Some(snaps) = simulate(h) else {
        return Prep::Inconclusive(format!("scenario {:?}: model cannot decide a TTL instant", scen.name));
    };
    if !matches!(h.ops.last(), Some(Op::Checkpoint)) || snaps.len() < 2 {
        return Prep::Inconclusive(format!("scenario {:?} is not of the form … checkpoint … checkpoint", scen.name));
    }
    if !clock::available() {
        // without the frozen clock "the same millisecond" cannot be arranged
        let mut since: Option<u64> = None;
        for op in &h.ops {
            match op {
                Op::Advance { d } => {
                    if let Some(s) = since.as_mut() {
                        *s += d;
                    }
                }
                Op::Checkpoint => {
                    if since == Some(0) {
                        return Prep::Inconclusive(format!("scenario {:?} needs the frozen clock (clock shim not loaded)", scen.name));
                    }
                    since = Some(0);
                }
                _ => {}
            }
        }
    }
    let scen_path = scratch.join(format!("scenario{}.json", idx));
    if let Err(e) = std::fs::write(&scen_path, h.to_json().to_string()) {
        return Prep::Inconclusive(format!("cannot write scenario file: {}", e));
    }
    let d = match fresh_run_dirs(scratch) {
        Ok(d) => d,
        Err(e) => return Prep::Inconclusive(format!("cannot create scratch dirs: {}", e)),
    };
    let (o, t) = match run_child(&scen_path, &d, None) {
        Ok(x) => x,
        Err(e) => return Prep::Inconclusive(e),
    };
    if !o.ok() || t.begin.is_none() || t.end.is_none() {
        return Prep::Inconclusive(format!(
            "fault-free run of scenario {:?} did not complete under strace ({}; markers {:?}/{:?})",
            scen.name,
            o.describe(),
            t.begin,
            t.end
        ));
    }
    let earlier_ids = read_ids(&d.meta);
    let call = read_result(&d.meta);
    if earlier_ids.len() + 1 != snaps.len() {
        return Prep::Inconclusive(format!("scenario {:?}: child recorded {} earlier ids, model has {} checkpoints", scen.name, earlier_ids.len(), snaps.len()));
    }
    let victim_id = match &call {
        CallResult::Ok(id) => id.clone(),
        other => {
            return Prep::Inconclusive(format!("scenario {:?}: fault-free checkpoint did not return Ok: {:?}", scen.name, other))
        }
    };
    // ids pairwise distinct (the same clause as in the history monitor)
    let mut all = earlier_ids.clone();
    all.push(victim_id.clone());
    for a in 0..all.len() {
        for b in a + 1..all.len() {
            if all[a] == all[b] {
                // same millisecond? decided from the scenario: no positive advance between the two ops
                let mut cp_pos = Vec::new();
                for (i, op) in h.ops.iter().enumerate() {
                    if matches!(op, Op::Checkpoint) {
                        cp_pos.push(i);
                    }
                }
                let adv: u64 = h.ops[cp_pos[a]..cp_pos[b]]
                    .iter()
                    .map(|o| if let Op::Advance { d } = o { *d } else { 0 })
                    .sum();
                let same = adv == 0;
                let f = Failure {
                    clause: "distinct-ids".into(),
                    cause: if same { "same-millisecond".into() } else { "distinct-instants".into() },
                    detail: format!(
                        "crash scenario {:?}: checkpoint calls #{} and #{} both returned id {:?} ({}); snapshots {} vs {}",
                        scen.name,
                        a,
                        b,
                        all[a],
                        if same { "clock frozen between them" } else { "clock advanced between them or real clock" },
                        snap_show(&snaps[a], &h.keys),
                        snap_show(&snaps[b], &h.keys)
                    ),
                };
                let _ = std::fs::remove_dir_all(&d.root);
                return Prep::Violation(to_violation(crash_case_json(scen, &Fault::None), &f));
            }
        }
    }
    let expect = Expect { earlier_ids, snaps, victim_id: Some(victim_id.clone()), max_checkpoints: h.max_checkpoints };
    if let Some(f) = verify_after_fault(&d.store, h, &expect, &call, "no-fault") {
        let _ = std::fs::remove_dir_all(&d.root);
        return Prep::Violation(to_violation(crash_case_json(scen, &Fault::None), &f));
    }
    let victim_file_len = std::fs::metadata(d.store.join(&victim_id).join("state.json"))
        .map(|m| m.len() as usize)
        .unwrap_or(0);
    Prep::Ready(Box::new(Family {
        scen: scen.clone(),
        scen_path,
        expect,
        window: t.window(),
        done: d,
        victim_file_len,
    }))
}

/// Syscall kinds on which an errno is injected (everything the call issues except pure reads of
/// metadata is interesting; injecting on all kinds is harmless because the oracle is
/// restore-based).
pub const ERRNOS: [&str; 2] = ["ENOSPC", "EIO"];

pub fn strace_faults(f: &Family) -> Vec<Fault> {
    let mut out = Vec::new();
    for (k, _g, w) in &f.window {
        out.push(Fault::Kill { syscall: k.clone(), nth: *w });
    }
    for (k, _g, w) in &f.window {
        for e in ERRNOS {
            out.push(Fault::Errno { syscall: k.clone(), nth: *w, errno: e.to_string() });
        }
    }
    // the process carrying on after the failed call: one errno is enough (the code under test
    // does not look at which error it was)
    for (k, _g, w) in &f.window {
        out.push(Fault::ErrnoSurvive { syscall: k.clone(), nth: *w, errno: "ENOSPC".to_string() });
    }
    out
}

pub enum Outcome {
    Held,
    /// held, but the child process did not survive the injected I/O error
    HeldChildDied,
    Violation(Failure),
    Inconclusive(String),
}

/// Execute one strace fault of a family in a fresh directory (one retry when the run could not
/// be judged).
pub fn run_strace_fault(f: &Family, fault: &Fault, scratch: &Path) -> Outcome {
    match run_strace_fault_once(f, fault, scratch) {
        Outcome::Inconclusive(_) => run_strace_fault_once(f, fault, scratch),
        o => o,
    }
}

fn run_strace_fault_once(f: &Family, fault: &Fault, scratch: &Path) -> Outcome {
    let (kind, nth, inject_tail) = match fault {
        Fault::Kill { syscall, nth } => (syscall.clone(), *nth, "signal=SIGKILL".to_string()),
        Fault::Errno { syscall, nth, errno } | Fault::ErrnoSurvive { syscall, nth, errno } => (syscall.clone(), *nth, format!("error={}", errno)),
        _ => return Outcome::Inconclusive("not a strace fault".into()),
    };
    let Some((_, global, _)) = f.window.iter().find(|(k, _, w)| *k == kind && *w == nth) else {
        return Outcome::Inconclusive(format!("window of {:?} has no {} #{}", f.scen.name, kind, nth));
    };
    let d = match fresh_run_dirs(scratch) {
        Ok(d) => d,
        Err(e) => return Outcome::Inconclusive(format!("cannot create scratch dirs: {}", e)),
    };
    let inject = format!("{}:{}:when={}", kind, inject_tail, global);
    let r = run_child_mode(&f.scen_path, &d, Some(&inject), matches!(fault, Fault::ErrnoSurvive { .. }));
    let out = (|| {
        let (o, t) = match r {
            Ok(x) => x,
            Err(e) => return Outcome::Inconclusive(e),
        };
        let h = &f.scen.hist;
        // Under the frozen clock the ids of this run equal those of the fault-free run (checked);
        // on the real clock they are this run's own: the earlier ids as the child recorded them
        // before the window, the victim = whatever else is found under the backend path.
        let run_ids = read_ids(&d.meta);
        let frozen = clock::available();
        if run_ids.len() != f.expect.earlier_ids.len() || (frozen && run_ids != f.expect.earlier_ids) {
            return Outcome::Inconclusive(format!(
                "scenario {:?}: the faulted run recorded earlier checkpoint ids {:?}, the fault-free run {:?}",
                f.scen.name, run_ids, f.expect.earlier_ids
            ));
        }
        let expect = Expect {
            earlier_ids: run_ids,
            snaps: f.expect.snaps.clone(),
            victim_id: if frozen { f.expect.victim_id.clone() } else { None },
            max_checkpoints: f.expect.max_checkpoints,
        };
        let f_expect = &expect;
        match fault {
            Fault::Kill { .. } => {
                // observed, not assumed: the kill landed inside the window, on the intended syscall
                let n_kind = t.calls.iter().filter(|(k, _)| *k == kind).count();
                let last_is_kind = t.calls.last().is_some_and(|(k, _)| *k == kind);
                // strace reports the death as "+++ killed by SIGKILL +++" and then dies of the same
                // signal itself; an unfinished last call ("= ?") plus that exit status is the same evidence
                let killed = t.killed
                    || (o.signal == Some(libc::SIGKILL) && t.calls.last().is_some_and(|(_, l)| l.trim_end().ends_with("= ?")));
                if !(killed && t.begin.is_some() && t.end.is_none() && last_is_kind && n_kind == *global) {
                    return Outcome::Inconclusive(format!(
                        "scenario {:?}: SIGKILL at {} #{} did not land where the dry run predicted (killed {}, begin {:?}, end {:?}, {} calls of that kind, {})",
                        f.scen.name, kind, nth, t.killed, t.begin, t.end, n_kind, o.describe()
                    ));
                }
                let label = format!("crash-before-syscall {} #{} of the checkpoint call", kind, nth);
                match verify_after_fault(&d.store, h, f_expect, &CallResult::Unknown, &label) {
                    Some(fl) => Outcome::Violation(fl),
                    None => Outcome::Held,
                }
            }
            Fault::Errno { errno, .. } => {
                let injected = t.calls.iter().any(|(_, l)| l.contains("(INJECTED)"));
                if !injected {
                    return Outcome::Inconclusive(format!("scenario {:?}: {} at {} #{} was not injected ({})", f.scen.name, errno, kind, nth, o.describe()));
                }
                if !o.ok() || t.end.is_none() {
                    // The child did not survive the failing syscall (e.g. std asserts that closedir
                    // succeeds). The statement promises nothing about that; what is on disk is
                    // judged exactly like after a crash at this point.
                    let label = format!("io-error {} at syscall {} #{} of the checkpoint call (process died: {})", errno, kind, nth, o.describe());
                    return match verify_after_fault(&d.store, h, f_expect, &CallResult::Unknown, &label) {
                        Some(fl) => Outcome::Violation(fl),
                        None => Outcome::HeldChildDied,
                    };
                }
                let call = read_result(&d.meta);
                let label = format!("io-error {} at syscall {} #{} of the checkpoint call", errno, kind, nth);
                match verify_after_fault(&d.store, h, f_expect, &call, &label) {
                    Some(fl) => Outcome::Violation(fl),
                    None => Outcome::Held,
                }
            }
            Fault::ErrnoSurvive { errno, .. } => {
                let injected = t.calls.iter().any(|(_, l)| l.contains("(INJECTED)"));
                if !injected {
                    return Outcome::Inconclusive(format!("scenario {:?}: {} at {} #{} was not injected ({})", f.scen.name, errno, kind, nth, o.describe()));
                }
                if !o.ok() || t.end.is_none() {
                    return Outcome::HeldChildDied;
                }
                let rep = std::fs::read_to_string(d.meta.join("survivor")).ok().and_then(|t| serde_json::from_str::<Json>(&t).ok());
                let Some(rep) = rep else {
                    return Outcome::Inconclusive(format!("scenario {:?}: the surviving child left no report", f.scen.name));
                };
                let victim = if rep["victim_ok"].as_bool() == Some(true) { "returned-ok" } else { "returned-err" };
                for round in rep["rounds"].as_array().cloned().unwrap_or_default() {
                    for r in round["restores"].as_array().cloned().unwrap_or_default() {
                        if r["ok"].as_bool() != Some(true) {
                            return Outcome::Violation(Failure {
                                clause: "restore-reproduces".into(),
                                cause: format!("checkpoint-owed-by-retention-lost-after-an-io-error-in-a-checkpoint-call|victim-{}", victim),
                                detail: format!(
                                    "io-error {} at syscall {} #{} of a checkpoint call ({}); the process carried on: after follow-up round {} the successful checkpoints were {}, retention (max_checkpoints {}) still owes {}, but restore({}) failed: {}",
                                    errno, kind, nth, victim, round["round"], round["successful_so_far"], rep["max_checkpoints"], round["owed"], r["id"], r["error"]
                                ),
                            });
                        }
                    }
                }
                Outcome::Held
            }
            _ => Outcome::Inconclusive("not a strace fault".into()),
        }
    })();
    let _ = std::fs::remove_dir_all(&d.root);
    out
}

/// Offsets at which the victim's state file is cut: all of them up to 16 KiB files; beyond that
/// the first and last 2 KiB, every 97th byte, and every line boundary ±1.
pub fn truncation_offsets(content: &[u8]) -> (Vec<usize>, bool) {
    let n = content.len();
    if n <= 16 * 1024 {
        return ((0..n).collect(), true);
    }
    let mut s = std::collections::BTreeSet::new();
    for o in 0..2048.min(n) {
        s.insert(o);
    }
    for o in n.saturating_sub(2048)..n {
        s.insert(o);
    }
    let mut o = 0;
    while o < n {
        s.insert(o);
        o += 97;
    }
    for (i, b) in content.iter().enumerate() {
        if *b == b'\n' {
            s.insert(i);
            if i + 1 < n {
                s.insert(i + 1);
            }
            if i > 0 {
                s.insert(i - 1);
            }
        }
    }
    (s.into_iter().collect(), false)
}

/// Replace the file by a NEW inode holding `data` (unlink + create). Truncating and rewriting
/// the same inode would make ext4 (auto_da_alloc) flush synchronously on every close.
fn rewrite(path: &Path, data: &[u8]) -> Result<(), String> {
    let _ = std::fs::remove_file(path);
    std::fs::write(path, data).map_err(|e| format!("cannot write {}: {}", path.display(), e))
}

pub struct FileFaultReport {
    pub truncations: u64,
    pub zero_fills: u64,
    pub dir_states: u64,
    pub all_offsets: bool,
    pub victim_restored_err: u64,
    pub victim_restored_complete: u64,
}

/// In-process file-level faults on the completed directory of the dry run. Calls `on_fail` for
/// every violation (first per fault type).
pub fn run_file_faults(f: &Family, on_fail: &mut dyn FnMut(Fault, Failure)) -> Result<FileFaultReport, String> {
    let h = &f.scen.hist;
    let vid = f.expect.victim_id.clone().unwrap_or_default();
    let vdir = f.done.store.join(&vid);
    let vfile = vdir.join("state.json");
    let content = std::fs::read(&vfile).map_err(|e| format!("cannot read the victim's state file {}: {}", vfile.display(), e))?;
    let (offsets, all) = truncation_offsets(&content);
    let mut rep = FileFaultReport {
        truncations: 0,
        zero_fills: 0,
        dir_states: 0,
        all_offsets: all,
        victim_restored_err: 0,
        victim_restored_complete: 0,
    };
    // retention may legitimately have retired earlier checkpoints in the completed run; the
    // expectation handles that through victim_complete (false for a cut file => they must exist).
    // Therefore file faults are only meaningful for earlier checkpoints still on disk: restrict
    // the expectation to those.
    let mut ex = Expect {
        earlier_ids: Vec::new(),
        snaps: Vec::new(),
        victim_id: f.expect.victim_id.clone(),
        max_checkpoints: usize::MAX / 2,
    };
    for (j, id) in f.expect.earlier_ids.iter().enumerate() {
        if f.done.store.join(id).exists() {
            ex.earlier_ids.push(id.clone());
            ex.snaps.push(f.expect.snaps[j].clone());
        }
    }
    ex.snaps.push(f.expect.snaps[f.expect.earlier_ids.len()].clone());
    let mut failed_trunc = false;
    let mut failed_zero = false;
    let victim_snap = ex.snaps.last().unwrap().clone();
    let tally = |rep: &mut FileFaultReport| {
        match try_restore(&f.done.store, h, &vid, &victim_snap) {
            Ok(Restored::Exact) => rep.victim_restored_complete += 1,
            Ok(Restored::Err(_)) => rep.victim_restored_err += 1,
            _ => {}
        }
    };
    for &o in &offsets {
        rewrite(&vfile, &content[..o])?;
        rep.truncations += 1;
        tally(&mut rep);
        if !failed_trunc {
            let label = format!("truncated-state-file at byte offset {} of {}", o, content.len());
            if let Some(fl) = verify_after_fault(&f.done.store, h, &ex, &CallResult::Unknown, &label) {
                failed_trunc = true;
                on_fail(Fault::Truncate { offset: o }, fl);
            }
        }
        let mut z = content[..o].to_vec();
        z.resize(content.len(), 0);
        rewrite(&vfile, &z)?;
        rep.zero_fills += 1;
        if !failed_zero {
            let label = format!("zero-filled-state-file from byte offset {} of {}", o, content.len());
            if let Some(fl) = verify_after_fault(&f.done.store, h, &ex, &CallResult::Unknown, &label) {
                failed_zero = true;
                on_fail(Fault::ZeroFill { offset: o }, fl);
            }
        }
    }
    // directory states
    std::fs::remove_file(&vfile).map_err(|e| e.to_string())?;
    rep.dir_states += 1;
    if let Some(fl) = verify_after_fault(&f.done.store, h, &ex, &CallResult::Unknown, "directory-state victim-directory-empty") {
        on_fail(Fault::DirState { state: "victim-directory-empty".into() }, fl);
    }
    std::fs::remove_dir(&vdir).map_err(|e| e.to_string())?;
    rep.dir_states += 1;
    if let Some(fl) = verify_after_fault(&f.done.store, h, &ex, &CallResult::Unknown, "directory-state victim-directory-missing") {
        on_fail(Fault::DirState { state: "victim-directory-missing".into() }, fl);
    }
    // put the complete file back: must restore completely again (sanity of the procedure)
    std::fs::create_dir_all(&vdir).map_err(|e| e.to_string())?;
    std::fs::write(&vfile, &content).map_err(|e| e.to_string())?;
    if let Some(fl) = verify_after_fault(&f.done.store, h, &ex, &CallResult::Ok(vid.clone()), "no-fault (file put back)") {
        on_fail(Fault::None, fl);
    }
    Ok(rep)
}

/// Apply one file-level fault (replay).
pub fn replay_file_fault(f: &Family, fault: &Fault) -> Result<Option<Failure>, String> {
    let mut res: Option<Failure> = None;
    let want = fault.to_json();
    // re-run the family's file faults and keep the failure of the matching fault type/offset if
    // it fails again; since key order inside the file is not deterministic the whole sweep is
    // repeated and the first failure of the same type is returned
    let ty = want["type"].as_str().unwrap_or("").to_string();
    run_file_faults(f, &mut |fa, fl| {
        if res.is_none() && fa.to_json()["type"].as_str() == Some(ty.as_str()) {
            res = Some(fl);
        }
    })?;
    Ok(res)
}
