//! Schedule perturbation through the library's `verif_hooks::sched_point` callback (H5):
//! seeded per-thread yields and short sleeps between critical sections, to widen the set of
//! interleavings a native stress run reaches.

use rust_rule_engine::verif_hooks;
use std::cell::Cell;
use std::sync::atomic::{AtomicU64, Ordering};
use std::sync::Arc;

static BASE_SEED: AtomicU64 = AtomicU64::new(1);
static THREAD_CTR: AtomicU64 = AtomicU64::new(1);
static PERTURBED: AtomicU64 = AtomicU64::new(0);

thread_local! {
    static STATE: Cell<u64> = const { Cell::new(0) };
}

fn next() -> u64 {
    STATE.with(|s| {
        let mut x = s.get();
        if x == 0 {
            x = BASE_SEED.load(Ordering::Relaxed)
                ^ THREAD_CTR.fetch_add(1, Ordering::Relaxed).wrapping_mul(0x9E37_79B9_7F4A_7C15)
                | 1;
        }
        x ^= x << 13;
        x ^= x >> 7;
        x ^= x << 17;
        s.set(x);
        x
    })
}

/// One perturbation decision: 1/4 yield, 1/8 sleep 0..max_sleep_us, else nothing.
pub fn perturb(max_sleep_us: u64) {
    let r = next();
    match r & 7 {
        0 | 1 => {
            PERTURBED.fetch_add(1, Ordering::Relaxed);
            std::thread::yield_now()
        }
        2 => {
            PERTURBED.fetch_add(1, Ordering::Relaxed);
            let us = (r >> 8) % (max_sleep_us + 1);
            std::thread::sleep(std::time::Duration::from_micros(us));
        }
        _ => {}
    }
}

/// Install the perturbing callback on the library's schedule points.
pub fn install(seed: u64, max_sleep_us: u64) {
    BASE_SEED.store(seed | 1, Ordering::Relaxed);
    verif_hooks::set_sched_callback(Some(Arc::new(move |_site| perturb(max_sleep_us))));
}

pub fn uninstall() {
    verif_hooks::set_sched_callback(None);
}

/// (schedule points reached in the library, perturbations actually applied)
pub fn counters() -> (u64, u64) {
    (verif_hooks::sched_points_reached(), PERTURBED.load(Ordering::Relaxed))
}
