//! Child-process runner: re-executes the current binary with `--worker …`, feeds stdin,
//! collects stdout, enforces a kernel CPU limit (RLIMIT_CPU) and an address-space limit, and
//! reports the child's own CPU time from `wait4` rusage. A separate, generous wall-clock
//! watchdog exists only as a back-stop; its firing is reported as `wall_killed` and must be
//! treated as inconclusive by the caller.

use std::io::{Read, Write};
use std::os::unix::process::CommandExt;
use std::process::{Command, Stdio};
use std::sync::mpsc;
use std::time::{Duration, Instant};

#[derive(Debug, Clone)]
pub struct ChildOutcome {
    pub exit: Option<i32>,
    pub signal: Option<i32>,
    pub stdout: Vec<u8>,
    pub cpu_s: f64,
    pub wall_s: f64,
    pub wall_killed: bool,
    pub max_rss_kb: i64,
}

impl ChildOutcome {
    pub fn ok(&self) -> bool {
        self.exit == Some(0)
    }
    pub fn describe(&self) -> String {
        format!(
            "exit={:?} signal={:?} cpu_s={:.2} wall_s={:.2} wall_killed={} max_rss_kb={}",
            self.exit, self.signal, self.cpu_s, self.wall_s, self.wall_killed, self.max_rss_kb
        )
    }
}

#[derive(Debug, Clone)]
pub struct Limits {
    /// kernel CPU-seconds limit (SIGXCPU at soft, SIGKILL at hard = soft+2)
    pub cpu_s: u64,
    /// address-space limit in bytes
    pub as_bytes: Option<u64>,
    /// wall-clock back-stop
    pub wall_s: f64,
    /// main-thread stack limit in bytes (RLIMIT_STACK); None = inherit
    pub stack_bytes: Option<u64>,
}

impl Default for Limits {
    fn default() -> Self {
        Limits {
            cpu_s: 60,
            as_bytes: Some(4 << 30),
            wall_s: 600.0,
            stack_bytes: None,
        }
    }
}

/// Run an arbitrary program under the limits.
pub fn run_cmd(mut cmd: Command, stdin: &[u8], lim: &Limits) -> std::io::Result<ChildOutcome> {
    cmd.stdin(Stdio::piped())
        .stdout(Stdio::piped())
        .stderr(Stdio::null());
    let l = lim.clone();
    unsafe {
        cmd.pre_exec(move || {
            let r = libc::rlimit {
                rlim_cur: l.cpu_s,
                rlim_max: l.cpu_s + 2,
            };
            libc::setrlimit(libc::RLIMIT_CPU, &r);
            if let Some(a) = l.as_bytes {
                let r = libc::rlimit {
                    rlim_cur: a,
                    rlim_max: a,
                };
                libc::setrlimit(libc::RLIMIT_AS, &r);
            }
            if let Some(s) = l.stack_bytes {
                let r = libc::rlimit {
                    rlim_cur: s,
                    rlim_max: s,
                };
                libc::setrlimit(libc::RLIMIT_STACK, &r);
            }
            let r = libc::rlimit {
                rlim_cur: 0,
                rlim_max: 0,
            };
            libc::setrlimit(libc::RLIMIT_CORE, &r);
            Ok(())
        });
    }
    let t0 = Instant::now();
    let mut child = cmd.spawn()?;
    let pid = child.id() as libc::pid_t;
    let mut cin = child.stdin.take().unwrap();
    let mut cout = child.stdout.take().unwrap();
    let data = stdin.to_vec();
    let writer = std::thread::spawn(move || {
        let _ = cin.write_all(&data);
        drop(cin);
    });
    let (tx, rx) = mpsc::channel::<()>();
    let wall = lim.wall_s;
    let killer = std::thread::spawn(move || -> bool {
        match rx.recv_timeout(Duration::from_secs_f64(wall)) {
            Ok(()) => false,
            Err(mpsc::RecvTimeoutError::Disconnected) => false,
            Err(mpsc::RecvTimeoutError::Timeout) => {
                unsafe {
                    libc::kill(pid, libc::SIGKILL);
                }
                true
            }
        }
    });
    let mut out = Vec::new();
    let _ = cout.read_to_end(&mut out);
    let mut status: libc::c_int = 0;
    let mut ru: libc::rusage = unsafe { std::mem::zeroed() };
    let rc = unsafe { libc::wait4(pid, &mut status, 0, &mut ru) };
    let _ = tx.send(());
    let wall_killed = killer.join().unwrap_or(false);
    let _ = writer.join();
    std::mem::forget(child); // already reaped by wait4
    let (exit, signal) = if rc < 0 {
        (None, None)
    } else if libc::WIFEXITED(status) {
        (Some(libc::WEXITSTATUS(status)), None)
    } else if libc::WIFSIGNALED(status) {
        (None, Some(libc::WTERMSIG(status)))
    } else {
        (None, None)
    };
    let tv = |t: libc::timeval| t.tv_sec as f64 + t.tv_usec as f64 / 1e6;
    Ok(ChildOutcome {
        exit,
        signal,
        stdout: out,
        cpu_s: tv(ru.ru_utime) + tv(ru.ru_stime),
        wall_s: t0.elapsed().as_secs_f64(),
        wall_killed,
        max_rss_kb: ru.ru_maxrss,
    })
}

/// Re-execute the current binary as `--worker <args…>`.
pub fn run_self(args: &[String], stdin: &[u8], lim: &Limits) -> std::io::Result<ChildOutcome> {
    let exe = std::env::current_exe()?;
    let mut cmd = Command::new(exe);
    cmd.arg("--worker").args(args);
    run_cmd(cmd, stdin, lim)
}
