//! C12 helper (included only by src/bin/c12.rs): the serialisable case model, the event builder
//! and the generators (exhaustive alphabets and seeded random cases).

use rre_verif::*;
use rust_rule_engine::streaming::event::StreamEvent;
use rust_rule_engine::types::Value;
use std::collections::HashMap;

/// A realistic epoch (ms) for the clock-driven node and for part of the event-time cases.
pub const EPOCH: u64 = 1_790_000_000_000;
pub const FIELD: &str = "v";
pub const SOURCE: &str = "src";

/// Payload of the aggregated field `v` of one event.
#[derive(Clone, Debug, PartialEq)]
pub enum Pay {
    Missing,
    Num(f64),
    Int(i64),
    Str(String),
    Bool(bool),
}

impl Pay {
    pub fn to_json(&self) -> Json {
        match self {
            Pay::Missing => Json::Null,
            // JSON has no spelling for the non-finite values
            Pay::Num(x) if x.is_nan() => json!({"nonfinite": "nan"}),
            Pay::Num(x) if x.is_infinite() => json!({"nonfinite": if *x > 0.0 { "inf" } else { "-inf" }}),
            Pay::Num(x) => json!(x),
            Pay::Int(i) => json!(i),
            Pay::Str(s) => json!(s),
            Pay::Bool(b) => json!(b),
        }
    }
    pub fn from_json(j: &Json) -> Pay {
        match j {
            Json::Bool(b) => Pay::Bool(*b),
            Json::String(s) => Pay::Str(s.clone()),
            Json::Number(n) => {
                if n.is_f64() {
                    Pay::Num(n.as_f64().unwrap_or(0.0))
                } else if let Some(i) = n.as_i64() {
                    Pay::Int(i)
                } else {
                    Pay::Num(n.as_f64().unwrap_or(0.0))
                }
            }
            Json::Object(o) => match o.get("nonfinite").and_then(|v| v.as_str()) {
                Some("nan") => Pay::Num(f64::NAN),
                Some("inf") => Pay::Num(f64::INFINITY),
                Some("-inf") => Pay::Num(f64::NEG_INFINITY),
                _ => Pay::Missing,
            },
            _ => Pay::Missing,
        }
    }
}

/// One offered event: timestamp relative to the case's `base`, and the payload of field `v`.
#[derive(Clone, Debug, PartialEq)]
pub struct Ev {
    pub ts: u64,
    pub pay: Pay,
}

#[derive(Clone, Copy, Debug, PartialEq)]
pub enum TwOp {
    Add,
    Record,
}

/// The concrete, re-executable case. All timestamps / clock values are relative to `base`.
#[derive(Clone, Debug, PartialEq)]
pub enum Case {
    /// one `TimeWindow` driven by `add_event` / `record`
    Tw {
        sliding: bool,
        start: u64,
        d: u64,
        cap: usize,
        base: u64,
        ops: Vec<(TwOp, Ev)>,
    },
    /// `WindowManager` in tumbling mode, one `process_event` per event
    Wm {
        d: u64,
        cap: usize,
        max_windows: usize,
        base: u64,
        evs: Vec<Ev>,
        /// a sub-millisecond part of the duration, in microseconds (0 = a whole number of ms).
        /// Instants are whole milliseconds, so what the aligned intervals of such a duration are
        /// is not stated: only "the event is in exactly one window, whose span contains its
        /// timestamp" is judged
        frac_us: u32,
    },
    /// `WindowedStream` in tumbling mode (batch)
    Ws {
        d: u64,
        cap: usize,
        base: u64,
        via_datastream: bool,
        evs: Vec<Ev>,
    },
    /// `StreamAlphaNode` under the injected clock: clock starts at base+clock0; each op advances
    /// the clock by `adv` ms and then offers the event
    Node {
        sliding: bool,
        d: u64,
        cap: usize,
        base: u64,
        clock0: u64,
        ops: Vec<(u64, Ev)>,
    },
}

fn ev_json(e: &Ev) -> Json {
    json!({"ts": e.ts, "v": e.pay.to_json()})
}
fn ev_from(j: &Json) -> Option<Ev> {
    Some(Ev {
        ts: j.get("ts")?.as_u64()?,
        pay: Pay::from_json(j.get("v").unwrap_or(&Json::Null)),
    })
}

impl Case {
    pub fn len(&self) -> usize {
        match self {
            Case::Tw { ops, .. } => ops.len(),
            Case::Wm { evs, .. } | Case::Ws { evs, .. } => evs.len(),
            Case::Node { ops, .. } => ops.len(),
        }
    }
    pub fn to_json(&self) -> Json {
        match self {
            Case::Tw { sliding, start, d, cap, base, ops } => json!({
                "kind": "time_window",
                "window_type": if *sliding { "sliding" } else { "tumbling" },
                "start": start, "duration_ms": d, "cap": cap, "base": base,
                "ops": ops.iter().map(|(o, e)| json!({
                    "op": match o { TwOp::Add => "add_event", TwOp::Record => "record" },
                    "ts": e.ts, "v": e.pay.to_json()})).collect::<Vec<_>>(),
            }),
            Case::Wm { d, cap, max_windows, base, evs, frac_us } => json!({
                "kind": "window_manager", "window_type": "tumbling",
                "duration_ms": d, "duration_extra_us": frac_us, "cap": cap, "max_windows": max_windows, "base": base,
                "events": evs.iter().map(ev_json).collect::<Vec<_>>(),
            }),
            Case::Ws { d, cap, base, via_datastream, evs } => json!({
                "kind": "windowed_stream", "window_type": "tumbling",
                "duration_ms": d, "cap": cap, "base": base, "via_datastream": via_datastream,
                "events": evs.iter().map(ev_json).collect::<Vec<_>>(),
            }),
            Case::Node { sliding, d, cap, base, clock0, ops } => json!({
                "kind": "alpha_node",
                "window_type": if *sliding { "sliding" } else { "tumbling" },
                "duration_ms": d, "cap": cap, "base": base, "clock0": clock0,
                "ops": ops.iter().map(|(a, e)| json!({
                    "advance_clock_ms": a, "ts": e.ts, "v": e.pay.to_json()})).collect::<Vec<_>>(),
            }),
        }
    }
    pub fn from_json(j: &Json) -> Option<Case> {
        let d = j.get("duration_ms")?.as_u64()?;
        let cap = j.get("cap")?.as_u64()? as usize;
        let base = j.get("base").and_then(|b| b.as_u64()).unwrap_or(0);
        let sliding = j.get("window_type").and_then(|w| w.as_str()) == Some("sliding");
        if d == 0 {
            return None;
        }
        match j.get("kind")?.as_str()? {
            "time_window" => {
                let mut ops = Vec::new();
                for o in j.get("ops")?.as_array()? {
                    let op = match o.get("op")?.as_str()? {
                        "add_event" => TwOp::Add,
                        "record" => TwOp::Record,
                        _ => return None,
                    };
                    ops.push((op, ev_from(o)?));
                }
                Some(Case::Tw {
                    sliding,
                    start: j.get("start").and_then(|s| s.as_u64()).unwrap_or(0),
                    d,
                    cap,
                    base,
                    ops,
                })
            }
            "window_manager" => Some(Case::Wm {
                d,
                cap,
                max_windows: j.get("max_windows")?.as_u64()? as usize,
                base,
                evs: j.get("events")?.as_array()?.iter().map(ev_from).collect::<Option<Vec<_>>>()?,
                frac_us: j.get("duration_extra_us").and_then(|v| v.as_u64()).unwrap_or(0) as u32,
            }),
            "windowed_stream" => Some(Case::Ws {
                d,
                cap,
                base,
                via_datastream: j.get("via_datastream").and_then(|b| b.as_bool()).unwrap_or(false),
                evs: j.get("events")?.as_array()?.iter().map(ev_from).collect::<Option<Vec<_>>>()?,
            }),
            "alpha_node" => {
                let mut ops = Vec::new();
                for o in j.get("ops")?.as_array()? {
                    ops.push((o.get("advance_clock_ms")?.as_u64()?, ev_from(o)?));
                }
                Some(Case::Node {
                    sliding,
                    d,
                    cap,
                    base,
                    clock0: j.get("clock0").and_then(|s| s.as_u64()).unwrap_or(0),
                    ops,
                })
            }
            _ => None,
        }
    }
    pub fn structural_hash(&self) -> u64 {
        hash_of(&format!("{:?}", self))
    }
}

/// Build the event through the public constructor, then give it the harness identity
/// (`id = e<idx>`, `metadata.sequence = idx`).
pub fn mk_event(idx: usize, ts: u64, pay: &Pay) -> StreamEvent {
    let mut data: HashMap<String, Value> = HashMap::new();
    match pay {
        Pay::Missing => {}
        Pay::Num(x) => {
            data.insert(FIELD.to_string(), Value::Number(*x));
        }
        Pay::Int(i) => {
            data.insert(FIELD.to_string(), Value::Integer(*i));
        }
        Pay::Str(s) => {
            data.insert(FIELD.to_string(), Value::String(s.clone()));
        }
        Pay::Bool(b) => {
            data.insert(FIELD.to_string(), Value::Boolean(*b));
        }
    }
    let mut e = StreamEvent::with_timestamp(EVENT_TYPE, data, SOURCE, ts);
    e.id = format!("e{}", idx);
    e.metadata.sequence = idx as u64;
    e
}

// ------------------------------------------------------------------------------------------
// exhaustive alphabets

pub const EVENT_TYPE: &str = "T";
pub const DURATIONS: [u64; 5] = [1, 2, 3, 5, 10];
pub const CAPS_EXH: [usize; 3] = [1, 2, 100];

/// `n` timestamps around the multiples of `d` (0, 1, d-1, d, d+1, 2d-1, 2d, 2d+1, then filling
/// the gaps densely), sorted.
pub fn ts_domain(d: u64, n: usize) -> Vec<u64> {
    let mut c: Vec<u64> = vec![0, 1, d.saturating_sub(1), d, d + 1, (2 * d).saturating_sub(1), 2 * d, 2 * d + 1];
    for x in 2..40 {
        c.push(x);
    }
    let mut out: Vec<u64> = Vec::new();
    for x in c {
        if !out.contains(&x) {
            out.push(x);
        }
        if out.len() == n {
            break;
        }
    }
    out.sort();
    out
}

/// Timestamps around the fixed span [d, 2d) used for the add_event enumeration.
pub fn add_domain(d: u64) -> Vec<u64> {
    let (s, e) = (d, 2 * d);
    let mut out: Vec<u64> = Vec::new();
    for x in [0, s.saturating_sub(1), s, s + 1, e.saturating_sub(1), e, e + 1] {
        if !out.contains(&x) {
            out.push(x);
        }
    }
    out.sort();
    out
}

const EXH_PAYS: [Pay; 6] = [
    Pay::Num(1.5),
    Pay::Int(-2),
    Pay::Missing,
    Pay::Num(0.1),
    Pay::Int(7),
    Pay::Num(-3.25),
];

/// Deterministic payload of the exhaustive part (position and timestamp decide), with a string
/// at every 7th slot so that non-numeric values also occur there.
pub fn exh_pay(pos: usize, ts: u64) -> Pay {
    let k = pos * 5 + ts as usize * 3;
    if k % 7 == 6 {
        Pay::Str("x".into())
    } else {
        EXH_PAYS[k % EXH_PAYS.len()].clone()
    }
}

/// Clock advances of the node enumeration.
pub fn node_advances(d: u64) -> Vec<u64> {
    let mut out: Vec<u64> = Vec::new();
    for x in [0, 1, d, d + 1] {
        if !out.contains(&x) {
            out.push(x);
        }
        if out.len() == 3 {
            break;
        }
    }
    out
}
/// Event timestamps of the node enumeration, relative to the clock at the time of the offer.
pub fn node_rels(d: u64) -> Vec<i64> {
    let d = d as i64;
    let mut out: Vec<i64> = Vec::new();
    for x in [-d - 1, -d, -d + 1, -1, 0, 1] {
        if !out.contains(&x) {
            out.push(x);
        }
    }
    out
}

/// Depth-first enumeration of every symbol sequence of length 1..=max_len over 0..alpha whose
/// first symbol is `first` (each sequence visited exactly once, prefixes before extensions).
pub fn enum_trie(alpha: usize, first: usize, max_len: usize, visit: &mut dyn FnMut(&[usize]) -> bool) {
    let mut seq = vec![first];
    loop {
        if !visit(&seq) {
            return;
        }
        if seq.len() < max_len {
            seq.push(0);
            continue;
        }
        loop {
            if seq.len() == 1 {
                return;
            }
            let last = seq.last_mut().unwrap();
            if *last + 1 < alpha {
                *last += 1;
                break;
            }
            seq.pop();
        }
    }
}

// ------------------------------------------------------------------------------------------
// random generators

const NUMS: [f64; 15] = [
    0.0, 1.0, -1.0, 2.5, -2.5, 0.1, 0.2, 0.3, 3.0, 7.25, 100.0, 1e6, -1e6, 1e-3, 1234.5678,
];
const INTS: [i64; 9] = [0, 1, -1, 2, 5, -5, 12, 1000, -1000];
const STRS: [&str; 4] = ["x", "", "12", "NaN"];

/// payload style of a whole case: 0 = mixed, 1 = all numeric, 2 = mostly missing/non-numeric,
/// 3 = numeric with readings that are not finite numbers (NaN, +-infinity), 4 = integers at the ends of i64
pub fn rand_pay(rng: &mut Rng, style: usize) -> Pay {
    let r = rng.below(100);
    match style {
        // integers whose exact total leaves i64 (the fold is over f64 readings)
        4 => {
            if r < 70 {
                Pay::Int(*rng.pick(&[i64::MAX, i64::MAX - 1, i64::MIN, 4_000_000_000_000_000_000, -4_000_000_000_000_000_000, 1 << 62]))
            } else if r < 90 {
                Pay::Int(*rng.pick(&INTS))
            } else {
                Pay::Missing
            }
        }
        3 => {
            if r < 25 {
                Pay::Num(f64::NAN)
            } else if r < 32 {
                Pay::Num(f64::INFINITY)
            } else if r < 39 {
                Pay::Num(f64::NEG_INFINITY)
            } else if r < 80 {
                Pay::Num(*rng.pick(&NUMS))
            } else if r < 92 {
                Pay::Int(*rng.pick(&INTS))
            } else {
                Pay::Missing
            }
        }
        1 => {
            if r < 70 {
                Pay::Num(*rng.pick(&NUMS))
            } else {
                Pay::Int(*rng.pick(&INTS))
            }
        }
        2 => {
            if r < 45 {
                Pay::Missing
            } else if r < 80 {
                Pay::Str(rng.pick(&STRS).to_string())
            } else if r < 90 {
                Pay::Bool(rng.bool())
            } else {
                Pay::Num(*rng.pick(&NUMS))
            }
        }
        _ => {
            if r < 50 {
                Pay::Num(*rng.pick(&NUMS))
            } else if r < 70 {
                Pay::Int(*rng.pick(&INTS))
            } else if r < 82 {
                Pay::Str(rng.pick(&STRS).to_string())
            } else if r < 95 {
                Pay::Missing
            } else {
                Pay::Bool(rng.bool())
            }
        }
    }
}

pub fn rand_duration(rng: &mut Rng) -> u64 {
    if rng.chance(4, 5) {
        *rng.pick(&DURATIONS)
    } else {
        *rng.pick(&[4u64, 7, 20, 40])
    }
}
pub fn rand_cap(rng: &mut Rng) -> usize {
    *rng.pick(&[1usize, 2, 3, 100, 100])
}
pub fn rand_base(rng: &mut Rng) -> u64 {
    if rng.chance(3, 5) {
        0
    } else {
        EPOCH + rng.below(30) as u64
    }
}

/// Timestamps in [0, 40]: dense, with a third of them snapped to a multiple of `d` (+-1), then
/// arranged in order / reversed / shuffled / mostly-in-order-with-late-arrivals.
pub fn rand_timestamps(rng: &mut Rng, d: u64, n: usize) -> Vec<u64> {
    let span = (*rng.pick(&[2 * d + 1, 4 * d, 6 * d, 40])).min(40).max(2);
    let mut ts: Vec<u64> = (0..n)
        .map(|_| {
            if rng.chance(1, 3) {
                let k = rng.below((span / d) as usize + 1) as u64 * d;
                let j = rng.range(-1, 1);
                (k as i64 + j).clamp(0, 40) as u64
            } else {
                rng.below(span as usize + 1) as u64
            }
        })
        .collect();
    match rng.below(5) {
        0 => ts.sort(),
        1 => {
            ts.sort();
            ts.reverse();
        }
        2 => {
            // mostly in order, a few late arrivals
            ts.sort();
            let swaps = 1 + rng.below(2);
            for _ in 0..swaps {
                if n >= 2 {
                    let i = rng.below(n);
                    let j = rng.below(n);
                    ts.swap(i, j);
                }
            }
        }
        _ => {} // as drawn = shuffled
    }
    ts
}

pub fn rand_events(rng: &mut Rng, d: u64) -> Vec<Ev> {
    // one case in 8 is long (more events than a small-slice code path of a sort or a container
    // would see), so that several windows each hold more events than the cap
    let n = if rng.chance(1, 8) { 21 + rng.below(44) } else { 1 + rng.below(12) };
    let style = *rng.pick(&[0usize, 0, 0, 0, 1, 1, 2, 2, 3, 4]);
    rand_timestamps(rng, d, n)
        .into_iter()
        .map(|ts| Ev { ts, pay: rand_pay(rng, style) })
        .collect()
}

/// A random event-time case of the given kind (0 record, 1 add/mixed, 2 window manager, 3 windowed stream).
pub fn rand_event_time_case(rng: &mut Rng, kind: usize) -> Case {
    let d = rand_duration(rng);
    let cap = rand_cap(rng);
    let base = rand_base(rng);
    let evs = rand_events(rng, d);
    if kind <= 1 && rng.chance(1, 25) {
        // a "for ever" window: a duration at the top of the u64 millisecond range, built at a
        // start instant that is not 0 (start + duration does not fit u64)
        let huge = *rng.pick(&[u64::MAX, u64::MAX - 1, 1u64 << 63]);
        let sliding = kind == 0 || rng.bool();
        let mixed = sliding && kind == 1 && rng.chance(1, 3);
        return Case::Tw {
            sliding,
            start: rng.below(4) as u64,
            d: huge,
            cap,
            base,
            ops: evs.into_iter().map(|e| (if kind == 0 || (mixed && rng.chance(1, 2)) { TwOp::Record } else { TwOp::Add }, e)).collect(),
        };
    }
    match kind {
        0 => Case::Tw {
            sliding: true,
            start: rng.below(3) as u64 * d,
            d,
            cap,
            base,
            ops: evs.into_iter().map(|e| (TwOp::Record, e)).collect(),
        },
        1 => {
            let sliding = rng.bool();
            let mixed = sliding && rng.chance(1, 3);
            let start = rng.below(4) as u64 * d + if rng.chance(1, 4) { 1 } else { 0 };
            Case::Tw {
                sliding,
                start,
                d,
                cap,
                base,
                ops: evs
                    .into_iter()
                    .map(|e| (if mixed && rng.chance(1, 2) { TwOp::Record } else { TwOp::Add }, e))
                    .collect(),
            }
        }
        2 => Case::Wm {
            d,
            cap,
            max_windows: *rng.pick(&[1usize, 2, 3, 100, 100]),
            base,
            evs,
            frac_us: if rng.chance(1, 10) { *rng.pick(&[500u32, 1, 999, 250]) } else { 0 },
        },
        _ => Case::Ws {
            d,
            cap,
            base,
            via_datastream: rng.bool(),
            evs,
        },
    }
}

/// A random clock-driven node case.
pub fn rand_node_case(rng: &mut Rng) -> Case {
    let d = rand_duration(rng);
    let cap = rand_cap(rng);
    let sliding = rng.bool();
    let base = if rng.chance(17, 20) { EPOCH + rng.below(30) as u64 } else { 0 };
    let clock0 = d + 2 + rng.below(11) as u64;
    let n = 1 + rng.below(12);
    let style = *rng.pick(&[0usize, 0, 0, 1, 1, 2, 2, 3, 4]);
    let mut now = clock0;
    let mut ops = Vec::new();
    for _ in 0..n {
        let adv = match rng.below(10) {
            0..=3 => 0,
            4 | 5 => 1,
            6 => 2,
            7 => d.saturating_sub(1),
            8 => d,
            _ => d + 1 + rng.below(d as usize) as u64,
        };
        now += adv;
        let ts: i64 = match rng.below(4) {
            0 => {
                // around the sliding boundaries
                now as i64 + *rng.pick(&[-(d as i64) - 1, -(d as i64), -(d as i64) + 1, -1, 0, 1])
            }
            1 => {
                // around the aligned interval of the absolute clock
                let abs = base + now;
                let s = (abs / d) * d;
                let t = *rng.pick(&[s as i64 - 1, s as i64, (s + d) as i64 - 1, (s + d) as i64]);
                t - base as i64
            }
            _ => now as i64 + rng.range(-(d as i64) - 2, 2),
        };
        ops.push((adv, Ev { ts: ts.max(0) as u64, pay: rand_pay(rng, style) }));
    }
    Case::Node { sliding, d, cap, base, clock0, ops }
}
