//! C15, wide concurrent listings: one writer thread changes a knowledge base that holds a few
//! hundred rules while reader threads list it through every listing view.
//!
//! Oracle (exact for one writer and any number of readers): the writer's operations are a
//! sequence, so the states the knowledge base can be in are S_0, S_1, .. S_W, computed by the
//! sequential reference model. The writer bumps `started` before each call and `finished` after
//! each return; a reader loads `finished` before its call (lo) and `started` after its return
//! (hi). Whatever point inside the call the reading takes effect at, the number of writer
//! operations that have taken effect by then lies in lo..=hi, so the answer must equal the view of
//! S_i for some i in lo..=hi. An answer that equals none of them is a state the knowledge base
//! never was in (a torn read).
//!
//! The 3-thread x 4-operation histories of the linearizability part keep at most a handful of
//! rules; this part is aimed at code whose behaviour depends on the number of stored rules
//! (chunked copies, growth of the vector, a sort that switches algorithm with the length).

use super::Rng;
use rust_rule_engine::{Condition, ConditionGroup, KnowledgeBase, Operator, Rule, Value};
use serde_json::{json, Value as Json};
use std::collections::{HashMap, HashSet};
use std::panic::{catch_unwind, AssertUnwindSafe};
use std::sync::atomic::{AtomicBool, AtomicU64, Ordering};
use std::sync::Arc;

#[derive(Clone, Debug)]
pub struct WideCfg {
    pub permanent: usize,
    pub readers: usize,
    pub writer_ops: usize,
    pub seed: u64,
}

impl WideCfg {
    pub fn to_json(&self) -> Json {
        json!({"kind": "wide-concurrent", "permanent_rules": self.permanent, "readers": self.readers, "writer_ops": self.writer_ops, "seed": self.seed.to_string()})
    }
    pub fn from_json(j: &Json) -> Option<WideCfg> {
        Some(WideCfg {
            permanent: j["permanent_rules"].as_u64()? as usize,
            readers: j["readers"].as_u64()? as usize,
            writer_ops: j["writer_ops"].as_u64()? as usize,
            seed: j["seed"].as_str()?.parse().ok()?,
        })
    }
}

#[derive(Clone, Copy, Debug)]
enum WOp {
    Add { id: u16, sal: i32 },
    Remove { id: u16 },
    Enable { id: u16, on: bool },
}

/// listing order of (rule id, enabled)
type State = Vec<(u16, bool)>;

#[derive(Default, Debug, Clone)]
pub struct WideObs {
    pub reads: u64,
    pub reads_overlapping_a_write: u64,
    pub reads_by_view: [u64; 6],
    pub distinct_states_read: u64,
    pub writer_ops: u64,
    pub max_rules_listed: u64,
    pub widest_interval: u64,
}

pub struct WideFail {
    pub clause: &'static str,
    pub cause: String,
    pub detail: String,
}

const HOT: usize = 6;
const VIEWS: [&str; 6] = ["get_rules", "get_rules_snapshot", "get_rule_names", "rule_count", "get_statistics", "get_rule"];

fn mk_rule(name: &str, sal: i32) -> Rule {
    Rule::new(name.to_string(), ConditionGroup::single(Condition::new("x".to_string(), Operator::Equal, Value::Integer(1))), vec![]).with_salience(sal)
}

fn model_apply(s: &mut State, sal_of: &mut [i32], op: WOp) -> bool {
    match op {
        WOp::Add { id, sal } => {
            if s.iter().any(|(i, _)| *i == id) {
                return false;
            }
            sal_of[id as usize] = sal;
            // descending salience, insertion order among equals: behind the last entry whose
            // salience is not below the new one
            let pos = s.iter().position(|(i, _)| sal_of[*i as usize] < sal).unwrap_or(s.len());
            s.insert(pos, (id, true));
            true
        }
        WOp::Remove { id } => match s.iter().position(|(i, _)| *i == id) {
            Some(p) => {
                s.remove(p);
                true
            }
            None => false,
        },
        WOp::Enable { id, on } => match s.iter_mut().find(|(i, _)| *i == id) {
            Some(e) => {
                e.1 = on;
                true
            }
            None => false,
        },
    }
}

/// One run. `Ok(obs)` if every answer matched a state of its interval.
pub fn run_wide(cfg: &WideCfg) -> (WideObs, Option<WideFail>) {
    let mut rng = Rng::derive(cfg.seed, 0xC15_D);
    let p = cfg.permanent;
    // names: permanent p000.., hot h0..h5
    let mut names: Vec<String> = (0..p).map(|i| format!("p{:03}", i)).collect();
    names.extend((0..HOT).map(|i| format!("h{}", i)));
    let id_of: HashMap<String, u16> = names.iter().enumerate().map(|(i, n)| (n.clone(), i as u16)).collect();
    let mut sal_of: Vec<i32> = (0..p).map(|i| if i < p / 2 { 10 } else { 0 }).collect();
    sal_of.extend(std::iter::repeat(0).take(HOT));
    let kb = Arc::new(KnowledgeBase::new("wide"));
    let mut s0: State = Vec::new();
    for i in 0..p {
        if kb.add_rule(mk_rule(&names[i], sal_of[i])).is_err() {
            return (WideObs::default(), Some(WideFail { clause: "add", cause: "setup-add-rejected".into(), detail: format!("adding {} to a knowledge base that does not hold it failed", names[i]) }));
        }
        s0.push((i as u16, true));
    }
    // the writer's script and the state after each operation
    let mut ops: Vec<WOp> = Vec::with_capacity(cfg.writer_ops);
    let mut states: Vec<State> = vec![s0.clone()];
    let mut expect: Vec<bool> = Vec::new();
    let mut cur = s0;
    for _ in 0..cfg.writer_ops {
        let hot = (p + rng.below(HOT)) as u16;
        let perm = rng.below(p) as u16;
        let op = match rng.below(100) {
            // a hot rule in front of everything, in the middle, at the end of a level, at the back
            0..=39 => WOp::Add { id: hot, sal: *rng.pick(&[100, 100, 5, 10, 0, -5]) },
            40..=74 => WOp::Remove { id: hot },
            75..=79 => WOp::Remove { id: perm },
            80..=87 => {
                // put back a permanent rule that is gone (it lands at the end of its level)
                match (0..p as u16).find(|i| !cur.iter().any(|(j, _)| j == i)) {
                    Some(id) => WOp::Add { id, sal: if (id as usize) < p / 2 { 10 } else { 0 } },
                    None => WOp::Add { id: perm, sal: 0 },
                }
            }
            _ => WOp::Enable { id: if rng.bool() { hot } else { perm }, on: rng.bool() },
        };
        let ok = model_apply(&mut cur, &mut sal_of, op);
        ops.push(op);
        expect.push(ok);
        states.push(cur.clone());
    }
    let states = Arc::new(states);
    let names = Arc::new(names);
    let id_of = Arc::new(id_of);
    let started = Arc::new(AtomicU64::new(0));
    let finished = Arc::new(AtomicU64::new(0));
    let done = Arc::new(AtomicBool::new(false));
    let stop = Arc::new(AtomicBool::new(false));
    // runs with an odd seed pace the writer: it waits (bounded) for one more read to finish
    // between operations, so that the intervals lo..=hi are narrow and most states are read
    let paced = cfg.seed % 2 == 1;
    let reads_done = Arc::new(AtomicU64::new(0));

    let mut obs = WideObs { writer_ops: cfg.writer_ops as u64, ..Default::default() };
    let mut fail: Option<WideFail> = None;

    std::thread::scope(|sc| {
        // writer
        let w = {
            let (kb, names, started, finished, done, stop) = (Arc::clone(&kb), Arc::clone(&names), Arc::clone(&started), Arc::clone(&finished), Arc::clone(&done), Arc::clone(&stop));
            let (ops, expect) = (&ops, &expect);
            let reads_done = Arc::clone(&reads_done);
            sc.spawn(move || -> Option<WideFail> {
                let mut out = None;
                for (k, op) in ops.iter().enumerate() {
                    if stop.load(Ordering::SeqCst) {
                        break;
                    }
                    if paced {
                        let seen = reads_done.load(Ordering::Relaxed);
                        let t = std::time::Instant::now();
                        while reads_done.load(Ordering::Relaxed) == seen && t.elapsed().as_micros() < 300 {
                            std::hint::spin_loop();
                        }
                    }
                    started.fetch_add(1, Ordering::SeqCst);
                    let r = catch_unwind(AssertUnwindSafe(|| match *op {
                        WOp::Add { id, sal } => kb.add_rule(mk_rule(&names[id as usize], sal)).is_ok(),
                        WOp::Remove { id } => kb.remove_rule(&names[id as usize]).unwrap_or(false),
                        WOp::Enable { id, on } => kb.set_rule_enabled(&names[id as usize], on).unwrap_or(false),
                    }));
                    finished.fetch_add(1, Ordering::SeqCst);
                    match r {
                        Ok(got) if got == expect[k] => {}
                        Ok(got) => {
                            out = Some(WideFail {
                                clause: "writer-result",
                                cause: "single-writer-operation-result-differs-from-the-model".into(),
                                detail: format!("writer operation #{} {:?} returned {} where the sequential model (the only writer) gives {}", k + 1, op, got, expect[k]),
                            });
                            break;
                        }
                        Err(_) => {
                            out = Some(WideFail { clause: "no-panic", cause: "writer-operation-panicked".into(), detail: format!("writer operation #{} {:?} panicked", k + 1, op) });
                            break;
                        }
                    }
                    if k % 7 == 0 {
                        std::thread::yield_now();
                    }
                }
                done.store(true, Ordering::SeqCst);
                out
            })
        };
        // readers
        let rs: Vec<_> = (0..cfg.readers)
            .map(|ri| {
                let (kb, names, id_of, states, started, finished, done, stop) =
                    (Arc::clone(&kb), Arc::clone(&names), Arc::clone(&id_of), Arc::clone(&states), Arc::clone(&started), Arc::clone(&finished), Arc::clone(&done), Arc::clone(&stop));
                let seed = cfg.seed;
                let p = cfg.permanent;
                let reads_done = Arc::clone(&reads_done);
                sc.spawn(move || -> (WideObs, Option<WideFail>) {
                    let mut rng = Rng::derive(seed, 0xEAD0 + ri as u64);
                    let mut o = WideObs::default();
                    let mut seen: HashSet<u64> = HashSet::new();
                    loop {
                        let last_round = done.load(Ordering::SeqCst);
                        if stop.load(Ordering::SeqCst) {
                            break;
                        }
                        let view = match rng.below(10) {
                            0..=3 => 0,
                            4 | 5 => 1,
                            6 => 2,
                            7 => 3,
                            8 => 4,
                            _ => 5,
                        };
                        let probe = (p + rng.below(HOT)) as u16;
                        let lo = finished.load(Ordering::SeqCst) as usize;
                        // what the view shows: Ok(listing of ids (+flags)), or a count triple
                        enum Got {
                            List(Vec<(String, Option<bool>)>),
                            Count(usize),
                            Stats(usize, usize, usize),
                            One(Option<bool>),
                        }
                        let got = catch_unwind(AssertUnwindSafe(|| match view {
                            0 => Got::List(kb.get_rules().iter().map(|r| (r.name.clone(), Some(r.enabled))).collect()),
                            1 => Got::List(kb.get_rules_snapshot().iter().map(|r| (r.name.clone(), Some(r.enabled))).collect()),
                            2 => Got::List(kb.get_rule_names().into_iter().map(|n| (n, None)).collect()),
                            3 => Got::Count(kb.rule_count()),
                            4 => {
                                let s = kb.get_statistics();
                                Got::Stats(s.total_rules, s.enabled_rules, s.disabled_rules)
                            }
                            _ => Got::One(kb.get_rule(&names[probe as usize]).map(|r| r.enabled)),
                        }));
                        let hi = (started.load(Ordering::SeqCst) as usize).min(states.len() - 1);
                        reads_done.fetch_add(1, Ordering::Relaxed);
                        o.reads += 1;
                        o.reads_by_view[view] += 1;
                        if hi > lo {
                            o.reads_overlapping_a_write += 1;
                        }
                        o.widest_interval = o.widest_interval.max((hi - lo) as u64);
                        let got = match got {
                            Ok(g) => g,
                            Err(_) => {
                                stop.store(true, Ordering::SeqCst);
                                return (o, Some(WideFail { clause: "no-panic", cause: format!("{}-panicked", VIEWS[view]), detail: format!("{} panicked while the writer was between operations #{} and #{}", VIEWS[view], lo, hi) }));
                            }
                        };
                        let matches = |s: &State| -> bool {
                            match &got {
                                // get_rule_names() comes from the name index and promises no order
                                Got::List(l) if view == 2 => {
                                    let mut a: Vec<u16> = l.iter().map(|(n, _)| id_of.get(n).copied().unwrap_or(u16::MAX)).collect();
                                    let mut b: Vec<u16> = s.iter().map(|x| x.0).collect();
                                    a.sort_unstable();
                                    b.sort_unstable();
                                    a == b
                                }
                                Got::List(l) => {
                                    l.len() == s.len()
                                        && l.iter().zip(s.iter()).all(|((n, en), (id, e))| id_of.get(n) == Some(id) && en.map_or(true, |x| x == *e))
                                }
                                Got::Count(c) => *c == s.len(),
                                Got::Stats(t, e, d) => {
                                    let en = s.iter().filter(|x| x.1).count();
                                    *t == s.len() && *e == en && *d == s.len() - en
                                }
                                Got::One(r) => *r == s.iter().find(|(i, _)| *i == probe).map(|x| x.1),
                            }
                        };
                        let hit = (lo..=hi).find(|i| matches(&states[*i]));
                        match hit {
                            Some(i) => {
                                if let Got::List(l) = &got {
                                    o.max_rules_listed = o.max_rules_listed.max(l.len() as u64);
                                    seen.insert(i as u64);
                                }
                            }
                            None => {
                                stop.store(true, Ordering::SeqCst);
                                let (cause, what) = match &got {
                                    Got::List(l) => {
                                        let mut c: HashMap<&str, usize> = HashMap::new();
                                        for (n, _) in l {
                                            *c.entry(n.as_str()).or_default() += 1;
                                        }
                                        let twice = c.iter().find(|(_, k)| **k > 1).map(|(n, _)| n.to_string());
                                        let unknown = l.iter().find(|(n, _)| !id_of.contains_key(n)).map(|(n, _)| n.clone());
                                        // a rule stored in every state of the interval yet absent
                                        let missing = states[lo].iter().map(|x| x.0).find(|id| (lo..=hi).all(|i| states[i].iter().any(|x| x.0 == *id)) && !c.contains_key(names[*id as usize].as_str()));
                                        if let Some(n) = twice {
                                            ("a-rule-listed-twice".to_string(), format!("rule {} is listed twice ({} entries)", n, l.len()))
                                        } else if let Some(n) = unknown {
                                            ("a-rule-nobody-added".to_string(), format!("rule {} was never added", n))
                                        } else if let Some(id) = missing {
                                            ("a-stored-rule-missing".to_string(), format!("rule {} is stored in every state of the interval and is not listed ({} entries)", names[id as usize], l.len()))
                                        } else {
                                            (if view == 2 { "names-of-no-state" } else { "order-or-flags-of-no-state" }.to_string(), format!("{} entries, first 8: {:?}", l.len(), l.iter().take(8).collect::<Vec<_>>()))
                                        }
                                    }
                                    Got::Count(c) => ("count-of-no-state".to_string(), format!("rule_count() = {}; the states of the interval hold {:?} rules", c, (lo..=hi).map(|i| states[i].len()).collect::<Vec<_>>())),
                                    Got::Stats(t, e, d) => ("statistics-of-no-state".to_string(), format!("get_statistics() = total {} / enabled {} / disabled {}; the states of the interval hold {:?} rules", t, e, d, (lo..=hi).map(|i| states[i].len()).collect::<Vec<_>>())),
                                    Got::One(r) => ("lookup-of-no-state".to_string(), format!("get_rule({}) = {:?} (enabled flag); in the states of the interval: {:?}", names[probe as usize], r, (lo..=hi).map(|i| states[i].iter().find(|(j, _)| *j == probe).map(|x| x.1)).collect::<Vec<_>>())),
                                };
                                o.distinct_states_read = seen.len() as u64;
                                return (
                                    o,
                                    Some(WideFail {
                                        clause: "wide-concurrent-listing",
                                        cause: format!("{}:{}", VIEWS[view], cause),
                                        detail: format!(
                                            "{} with {} permanent rules returned while the single writer had completed {} operations before the call and started {} before the return: the answer equals the view of none of the states S_{}..S_{} ({})",
                                            VIEWS[view], p, lo, hi, lo, hi, what
                                        ),
                                    }),
                                );
                            }
                        }
                        if last_round {
                            break;
                        }
                    }
                    o.distinct_states_read = seen.len() as u64;
                    (o, None)
                })
            })
            .collect();
        let wf = w.join().unwrap_or_else(|_| Some(WideFail { clause: "harness", cause: "writer-thread-died".into(), detail: String::new() }));
        for r in rs {
            match r.join() {
                Ok((o, f)) => {
                    obs.reads += o.reads;
                    obs.reads_overlapping_a_write += o.reads_overlapping_a_write;
                    for i in 0..6 {
                        obs.reads_by_view[i] += o.reads_by_view[i];
                    }
                    obs.distinct_states_read += o.distinct_states_read;
                    obs.max_rules_listed = obs.max_rules_listed.max(o.max_rules_listed);
                    obs.widest_interval = obs.widest_interval.max(o.widest_interval);
                    if fail.is_none() {
                        fail = f;
                    }
                }
                Err(_) => {
                    if fail.is_none() {
                        fail = Some(WideFail { clause: "harness", cause: "reader-thread-died".into(), detail: String::new() });
                    }
                }
            }
        }
        if fail.is_none() {
            fail = wf;
        }
    });
    (obs, fail)
}

pub fn view_names() -> &'static [&'static str; 6] {
    &VIEWS
}
