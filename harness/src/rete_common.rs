//! Shared by `bin/c06.rs` and `bin/c07.rs` (included with `#[path]`, not part of the library).
//!
//! * a tiny typed core of GRL: the generator's own condition AST, a three-valued reference
//!   evaluator (DESIGN §4.2), a GRL text renderer and a structural check that the real parser
//!   read the text back as the AST that was written (anything else is C04's business and the
//!   case is skipped and counted, never judged here);
//! * an `IncrementalEngine` driver: rules go GRL text -> real `GRLParser` -> hook
//!   `GrlReteLoader::verif_convert_rule` -> action closure wrapped by a recorder -> `add_rule`;
//! * the history monitor (shadow working memory, per-handle version history, firing clauses).

#![allow(dead_code)]

use rre_verif::*;
use rust_rule_engine::engine::rule::{ConditionExpression, ConditionGroup, Rule};
use rust_rule_engine::rete::{
    ActionResult, ActionResults, FactHandle, FactValue, GrlReteLoader, IncrementalEngine,
    TypedFacts,
};
use rust_rule_engine::types::{ActionType, LogicalOperator, Operator, Value};
use rust_rule_engine::GRLParser;
use std::cell::RefCell;
use std::collections::{BTreeMap, BTreeSet, HashMap};
use std::sync::{Arc, Mutex};

// ------------------------------------------------------------------------------------------
// values, conditions, reference evaluator
// ------------------------------------------------------------------------------------------

#[derive(Clone, Debug, PartialEq, Eq, Hash, PartialOrd, Ord)]
pub enum Val {
    I(i64),
    S(String),
    B(bool),
    /// a numeric field holding a floating-point NaN (only ever generated as a FACT value, never
    /// as a literal): no ordering comparison holds for it under any reading
    Nan,
    /// anything outside the typed core that the engine produced (float, null, array, ...)
    X(String),
    /// a whole-number LITERAL beyond the i64 range, by its decimal text (`10000000000000000000`,
    /// `-9300000000000000000`): below / above every integer a field can hold, equal to none
    Big(String),
}

pub type Fields = BTreeMap<String, Val>;

impl Val {
    pub fn to_json(&self) -> Json {
        match self {
            Val::I(i) => json!(i),
            Val::S(s) => json!(s),
            Val::B(b) => json!(b),
            Val::Nan => json!({ "nan": true }),
            Val::X(s) => json!({ "other": s }),
            Val::Big(s) => json!({ "whole_number_beyond_i64": s }),
        }
    }
    pub fn from_json(j: &Json) -> Option<Val> {
        match j {
            Json::Number(n) => n.as_i64().map(Val::I),
            Json::String(s) => Some(Val::S(s.clone())),
            Json::Bool(b) => Some(Val::B(*b)),
            Json::Object(o) if o.contains_key("nan") => Some(Val::Nan),
            Json::Object(o) if o.contains_key("whole_number_beyond_i64") => o.get("whole_number_beyond_i64").and_then(|v| v.as_str()).map(|s| Val::Big(s.to_string())),
            Json::Object(o) => o.get("other").and_then(|v| v.as_str()).map(|s| Val::X(s.to_string())),
            _ => None,
        }
    }
    pub fn grl(&self) -> String {
        match self {
            Val::I(i) => i.to_string(),
            Val::S(s) => format!("\"{}\"", s),
            Val::B(b) => b.to_string(),
            Val::Nan => "NaN".to_string(),
            Val::X(s) => s.clone(),
            Val::Big(s) => s.clone(),
        }
    }
    pub fn to_fact_value(&self) -> FactValue {
        match self {
            Val::I(i) => FactValue::Integer(*i),
            Val::S(s) => FactValue::String(s.clone()),
            Val::B(b) => FactValue::Boolean(*b),
            Val::Nan => FactValue::Float(f64::NAN),
            Val::X(s) => FactValue::String(s.clone()),
            Val::Big(s) => FactValue::Float(s.parse().unwrap_or(f64::NAN)),
        }
    }
    pub fn from_fact_value(v: &FactValue) -> Val {
        match v {
            FactValue::Integer(i) => Val::I(*i),
            FactValue::String(s) => Val::S(s.clone()),
            FactValue::Boolean(b) => Val::B(*b),
            FactValue::Float(f) if f.is_nan() => Val::Nan,
            other => Val::X(format!("{:?}", other)),
        }
    }
}

pub fn fields_to_json(f: &Fields) -> Json {
    Json::Object(f.iter().map(|(k, v)| (k.clone(), v.to_json())).collect())
}
pub fn fields_from_json(j: &Json) -> Option<Fields> {
    let mut out = Fields::new();
    for (k, v) in j.as_object()? {
        out.insert(k.clone(), Val::from_json(v)?);
    }
    Some(out)
}
pub fn fields_to_typed(f: &Fields) -> TypedFacts {
    let mut t = TypedFacts::new();
    for (k, v) in f {
        t.set(k.clone(), v.to_fact_value());
    }
    t
}
pub fn typed_to_fields(t: &TypedFacts) -> Fields {
    t.get_all().iter().map(|(k, v)| (k.clone(), Val::from_fact_value(v))).collect()
}

#[derive(Clone, Copy, Debug, PartialEq, Eq, Hash)]
pub enum Op {
    Eq,
    Ne,
    Lt,
    Le,
    Gt,
    Ge,
    Contains,
    StartsWith,
    EndsWith,
}

pub const INT_OPS: [Op; 6] = [Op::Eq, Op::Ne, Op::Lt, Op::Le, Op::Gt, Op::Ge];
pub const STR_OPS: [Op; 5] = [Op::Eq, Op::Ne, Op::Contains, Op::StartsWith, Op::EndsWith];
pub const BOOL_OPS: [Op; 2] = [Op::Eq, Op::Ne];

impl Op {
    pub fn text(self) -> &'static str {
        match self {
            Op::Eq => "==",
            Op::Ne => "!=",
            Op::Lt => "<",
            Op::Le => "<=",
            Op::Gt => ">",
            Op::Ge => ">=",
            Op::Contains => "contains",
            Op::StartsWith => "startsWith",
            Op::EndsWith => "endsWith",
        }
    }
    pub fn from_text(s: &str) -> Option<Op> {
        Some(match s {
            "==" => Op::Eq,
            "!=" => Op::Ne,
            "<" => Op::Lt,
            "<=" => Op::Le,
            ">" => Op::Gt,
            ">=" => Op::Ge,
            "contains" => Op::Contains,
            "startsWith" => Op::StartsWith,
            "endsWith" => Op::EndsWith,
            _ => return None,
        })
    }
    fn from_operator(o: &Operator) -> Option<Op> {
        Some(match o {
            Operator::Equal => Op::Eq,
            Operator::NotEqual => Op::Ne,
            Operator::LessThan => Op::Lt,
            Operator::LessThanOrEqual => Op::Le,
            Operator::GreaterThan => Op::Gt,
            Operator::GreaterThanOrEqual => Op::Ge,
            Operator::Contains => Op::Contains,
            Operator::StartsWith => Op::StartsWith,
            Operator::EndsWith => Op::EndsWith,
            _ => return None,
        })
    }
}

/// Condition over the fields of ONE fact (field names are unqualified here; the rule's fact
/// type qualifies them in the GRL text).
#[derive(Clone, Debug, PartialEq, Eq, Hash)]
pub enum Cond {
    Leaf { field: String, op: Op, lit: Val },
    And(Box<Cond>, Box<Cond>),
    Or(Box<Cond>, Box<Cond>),
    Not(Box<Cond>),
}

#[derive(Clone, Copy, Debug, PartialEq, Eq)]
pub enum Tri {
    True,
    False,
    Undefined,
}

impl Cond {
    pub fn has_not(&self) -> bool {
        match self {
            Cond::Leaf { .. } => false,
            Cond::Not(_) => true,
            Cond::And(a, b) | Cond::Or(a, b) => a.has_not() || b.has_not(),
        }
    }
    pub fn size(&self) -> usize {
        match self {
            Cond::Leaf { .. } => 1,
            Cond::Not(a) => 1 + a.size(),
            Cond::And(a, b) | Cond::Or(a, b) => 1 + a.size() + b.size(),
        }
    }
    pub fn to_json(&self) -> Json {
        match self {
            Cond::Leaf { field, op, lit } => json!({"field": field, "op": op.text(), "lit": lit.to_json()}),
            Cond::And(a, b) => json!({"and": [a.to_json(), b.to_json()]}),
            Cond::Or(a, b) => json!({"or": [a.to_json(), b.to_json()]}),
            Cond::Not(a) => json!({"not": a.to_json()}),
        }
    }
    pub fn from_json(j: &Json) -> Option<Cond> {
        if let Some(a) = j.get("and") {
            return Some(Cond::And(Box::new(Cond::from_json(&a[0])?), Box::new(Cond::from_json(&a[1])?)));
        }
        if let Some(a) = j.get("or") {
            return Some(Cond::Or(Box::new(Cond::from_json(&a[0])?), Box::new(Cond::from_json(&a[1])?)));
        }
        if let Some(a) = j.get("not") {
            return Some(Cond::Not(Box::new(Cond::from_json(a)?)));
        }
        Some(Cond::Leaf {
            field: j.get("field")?.as_str()?.to_string(),
            op: Op::from_text(j.get("op")?.as_str()?)?,
            lit: Val::from_json(j.get("lit")?)?,
        })
    }
    /// GRL text; compound children are always parenthesised, so the tree shape is unambiguous.
    pub fn grl(&self, ty: &str, paren_leaves: bool) -> String {
        match self {
            Cond::Leaf { field, op, lit } => {
                let s = format!("{}.{} {} {}", ty, field, op.text(), lit.grl());
                if paren_leaves {
                    format!("({})", s)
                } else {
                    s
                }
            }
            Cond::And(a, b) => format!("{} && {}", a.grl_child(ty, paren_leaves), b.grl_child(ty, paren_leaves)),
            Cond::Or(a, b) => format!("{} || {}", a.grl_child(ty, paren_leaves), b.grl_child(ty, paren_leaves)),
            Cond::Not(a) => format!("!({})", a.grl(ty, false)),
        }
    }
    fn grl_child(&self, ty: &str, paren_leaves: bool) -> String {
        match self {
            Cond::Leaf { .. } | Cond::Not(_) => self.grl(ty, paren_leaves),
            _ => format!("({})", self.grl(ty, paren_leaves)),
        }
    }
}

/// Three-valued reference evaluation (Kleene connectives). `Undefined` = the typed core does
/// not define it: absent field, operand kinds differ, an operator outside the kind's table.
pub fn eval(c: &Cond, f: &Fields) -> Tri {
    match c {
        Cond::Leaf { field, op, lit } => {
            let Some(v) = f.get(field) else { return Tri::Undefined };
            let b = match (v, lit) {
                (Val::I(a), Val::I(b)) => match op {
                    Op::Eq => a == b,
                    Op::Ne => a != b,
                    Op::Lt => a < b,
                    Op::Le => a <= b,
                    Op::Gt => a > b,
                    Op::Ge => a >= b,
                    _ => return Tri::Undefined,
                },
                (Val::S(a), Val::S(b)) => match op {
                    Op::Eq => a == b,
                    Op::Ne => a != b,
                    Op::Contains => a.contains(b.as_str()),
                    Op::StartsWith => a.starts_with(b.as_str()),
                    Op::EndsWith => a.ends_with(b.as_str()),
                    _ => return Tri::Undefined,
                },
                (Val::B(a), Val::B(b)) => match op {
                    Op::Eq => a == b,
                    Op::Ne => a != b,
                    _ => return Tri::Undefined,
                },
                // a literal beyond the i64 range: its sign decides every comparison with an integer
                (Val::I(_), Val::Big(t)) => {
                    let lit_is_above = !t.starts_with('-');
                    match op {
                        Op::Eq => false,
                        Op::Ne => true,
                        Op::Lt | Op::Le => lit_is_above,
                        Op::Gt | Op::Ge => !lit_is_above,
                        _ => return Tri::Undefined,
                    }
                }
                (Val::Nan, Val::Big(_)) => match op {
                    Op::Lt | Op::Le | Op::Gt | Op::Ge => false,
                    _ => return Tri::Undefined,
                },
                // NaN in a numeric field: every ordering comparison is false; (in)equality is left open
                (Val::Nan, Val::I(_)) => match op {
                    Op::Lt | Op::Le | Op::Gt | Op::Ge => false,
                    _ => return Tri::Undefined,
                },
                _ => return Tri::Undefined,
            };
            if b {
                Tri::True
            } else {
                Tri::False
            }
        }
        Cond::Not(a) => match eval(a, f) {
            Tri::True => Tri::False,
            Tri::False => Tri::True,
            Tri::Undefined => Tri::Undefined,
        },
        Cond::And(a, b) => match (eval(a, f), eval(b, f)) {
            (Tri::False, _) | (_, Tri::False) => Tri::False,
            (Tri::True, Tri::True) => Tri::True,
            _ => Tri::Undefined,
        },
        Cond::Or(a, b) => match (eval(a, f), eval(b, f)) {
            (Tri::True, _) | (_, Tri::True) => Tri::True,
            (Tri::False, Tri::False) => Tri::False,
            _ => Tri::Undefined,
        },
    }
}

// ------------------------------------------------------------------------------------------
// rules
// ------------------------------------------------------------------------------------------

#[derive(Clone, Debug, PartialEq, Eq, Hash)]
pub enum Act {
    /// `Log("...")` — leaves working memory unchanged
    Log,
    /// `Type.field = literal;`
    Set { ty: String, field: String, val: Val },
    /// `retract($Type);` (dollar = true) or `Retract("Type");`
    Retract { ty: String, dollar: bool },
    /// `Type.field = Type.field + by;` (only used by the termination workloads of C07)
    Incr { ty: String, field: String, by: i64 },
    /// erase every fact (only meaningful for the closure-driven engines of C07; never rendered)
    Clear,
}

impl Act {
    pub fn to_json(&self) -> Json {
        match self {
            Act::Log => json!("log"),
            Act::Set { ty, field, val } => json!({"set": format!("{}.{}", ty, field), "val": val.to_json()}),
            Act::Retract { ty, dollar } => json!({"retract": ty, "dollar": dollar}),
            Act::Incr { ty, field, by } => json!({"incr": format!("{}.{}", ty, field), "by": by}),
            Act::Clear => json!("clear"),
        }
    }
    pub fn from_json(j: &Json) -> Option<Act> {
        if j.as_str() == Some("log") {
            return Some(Act::Log);
        }
        if j.as_str() == Some("clear") {
            return Some(Act::Clear);
        }
        if let Some(s) = j.get("set").and_then(|v| v.as_str()) {
            let (ty, field) = s.split_once('.')?;
            return Some(Act::Set { ty: ty.into(), field: field.into(), val: Val::from_json(j.get("val")?)? });
        }
        if let Some(s) = j.get("retract").and_then(|v| v.as_str()) {
            return Some(Act::Retract { ty: s.into(), dollar: j.get("dollar").and_then(|v| v.as_bool()).unwrap_or(true) });
        }
        if let Some(s) = j.get("incr").and_then(|v| v.as_str()) {
            let (ty, field) = s.split_once('.')?;
            return Some(Act::Incr { ty: ty.into(), field: field.into(), by: j.get("by")?.as_i64()? });
        }
        None
    }
    pub fn grl(&self, rule_name: &str) -> String {
        match self {
            Act::Log => format!("Log(\"fired {}\");", rule_name),
            Act::Set { ty, field, val } => format!("{}.{} = {};", ty, field, val.grl()),
            Act::Retract { ty, dollar: true } => format!("retract(${});", ty),
            Act::Retract { ty, dollar: false } => format!("Retract(\"{}\");", ty),
            Act::Incr { ty, field, by } => format!("{}.{} = {}.{} + {};", ty, field, ty, field, by),
            Act::Clear => String::new(),
        }
    }
    pub fn leaves_wm_unchanged(&self) -> bool {
        matches!(self, Act::Log)
    }
}

#[derive(Clone, Debug, PartialEq, Eq, Hash)]
pub struct RuleSpec {
    pub name: String,
    /// the single fact type the rule is about
    pub ty: String,
    pub salience: i32,
    pub no_loop: bool,
    pub cond: Cond,
    pub acts: Vec<Act>,
    /// 0 = multi-line, 1 = one line, 2 = multi-line with parenthesised leaves, 3 = attributes swapped
    pub layout: u8,
}

impl RuleSpec {
    pub fn to_json(&self) -> Json {
        json!({
            "name": self.name, "type": self.ty, "salience": self.salience, "no_loop": self.no_loop,
            "when": self.cond.to_json(), "when_text": self.cond.grl(&self.ty, false),
            "then": self.acts.iter().map(|a| a.to_json()).collect::<Vec<_>>(), "layout": self.layout,
        })
    }
    pub fn from_json(j: &Json) -> Option<RuleSpec> {
        Some(RuleSpec {
            name: j.get("name")?.as_str()?.to_string(),
            ty: j.get("type")?.as_str()?.to_string(),
            salience: j.get("salience")?.as_i64()? as i32,
            no_loop: j.get("no_loop")?.as_bool()?,
            cond: Cond::from_json(j.get("when")?)?,
            acts: j.get("then")?.as_array()?.iter().map(Act::from_json).collect::<Option<Vec<_>>>()?,
            layout: j.get("layout").and_then(|v| v.as_u64()).unwrap_or(0) as u8,
        })
    }
    pub fn grl(&self) -> String {
        let attrs = match (self.no_loop, self.layout) {
            (true, 3) => format!("no-loop salience {}", self.salience),
            (true, _) => format!("salience {} no-loop", self.salience),
            (false, _) => format!("salience {}", self.salience),
        };
        let cond = self.cond.grl(&self.ty, self.layout == 2);
        let acts: Vec<String> = self.acts.iter().map(|a| a.grl(&self.name)).filter(|s| !s.is_empty()).collect();
        if self.layout == 1 {
            format!("rule \"{}\" {} {{ when {} then {} }}\n", self.name, attrs, cond, acts.join(" "))
        } else {
            format!(
                "rule \"{}\" {} {{\n    when\n        {}\n    then\n        {}\n}}\n",
                self.name,
                attrs,
                cond,
                acts.join("\n        ")
            )
        }
    }
    pub fn log_only(&self) -> bool {
        self.acts.iter().all(|a| a.leaves_wm_unchanged())
    }
}

pub fn program_text(rules: &[RuleSpec]) -> String {
    let mut s = String::from("// generated by rre-verif\n");
    for r in rules {
        s.push_str(&r.grl());
        s.push('\n');
    }
    s
}

// ---- reading the parsed rule back as our AST (structural check; mismatch => skip, C04's job)

fn group_to_cond(g: &ConditionGroup, ty: &str) -> Option<Cond> {
    match g {
        ConditionGroup::Single(c) => {
            let ConditionExpression::Field(name) = &c.expression else { return None };
            let (t, f) = name.split_once('.')?;
            if t != ty || f.contains('.') {
                return None;
            }
            let lit = match &c.value {
                Value::Integer(i) => Val::I(*i),
                Value::String(s) => Val::S(s.clone()),
                Value::Boolean(b) => Val::B(*b),
                // a whole number beyond i64 comes back as the nearest double: recognised by value
                Value::Number(x) if x.is_finite() && x.fract() == 0.0 && x.abs() >= 9.3e18 => {
                    match BIG_LITERALS.iter().find(|t| t.parse::<f64>().ok() == Some(*x)) {
                        Some(t) => Val::Big(t.to_string()),
                        None => return None,
                    }
                }
                _ => return None,
            };
            Some(Cond::Leaf { field: f.to_string(), op: Op::from_operator(&c.operator)?, lit })
        }
        ConditionGroup::Compound { left, operator, right } => {
            let l = Box::new(group_to_cond(left, ty)?);
            let r = Box::new(group_to_cond(right, ty)?);
            match operator {
                LogicalOperator::And => Some(Cond::And(l, r)),
                LogicalOperator::Or => Some(Cond::Or(l, r)),
                LogicalOperator::Not => None,
            }
        }
        ConditionGroup::Not(inner) => Some(Cond::Not(Box::new(group_to_cond(inner, ty)?))),
        _ => None,
    }
}

fn action_matches(parsed: &ActionType, want: &Act) -> bool {
    match (parsed, want) {
        (ActionType::Log { .. }, Act::Log) => true,
        (ActionType::Set { field, value }, Act::Set { ty, field: f, val }) => {
            field == &format!("{}.{}", ty, f)
                && match (value, val) {
                    (Value::Integer(a), Val::I(b)) => a == b,
                    (Value::String(a), Val::S(b)) => a == b,
                    (Value::Boolean(a), Val::B(b)) => a == b,
                    _ => false,
                }
        }
        (ActionType::Set { field, value }, Act::Incr { ty, field: f, by }) => {
            field == &format!("{}.{}", ty, f)
                && matches!(value, Value::Expression(e) if e.replace(' ', "") == format!("{}.{}+{}", ty, f, by))
        }
        (ActionType::Retract { object }, Act::Retract { ty, .. }) => object.trim_matches('"') == ty,
        _ => false,
    }
}

fn rule_matches(parsed: &Rule, want: &RuleSpec) -> Result<(), String> {
    if parsed.name != want.name {
        return Err(format!("name {:?} != {:?}", parsed.name, want.name));
    }
    if parsed.salience != want.salience {
        return Err(format!("salience {} != {}", parsed.salience, want.salience));
    }
    if parsed.no_loop != want.no_loop {
        return Err("no-loop flag".into());
    }
    if parsed.agenda_group.is_some() || parsed.activation_group.is_some() || parsed.lock_on_active {
        return Err("unexpected attribute".into());
    }
    match group_to_cond(&parsed.conditions, &want.ty) {
        Some(c) if c == want.cond => {}
        other => return Err(format!("condition tree read back as {:?}", other)),
    }
    let wanted: Vec<&Act> = want.acts.iter().filter(|a| !matches!(a, Act::Clear)).collect();
    if parsed.actions.len() != wanted.len() || !parsed.actions.iter().zip(wanted.iter()).all(|(p, w)| action_matches(p, w)) {
        return Err(format!("actions read back as {:?}", parsed.actions));
    }
    Ok(())
}

thread_local! {
    pub static PARSE_NS: std::cell::Cell<u64> = const { std::cell::Cell::new(0) };
    static PARSE_CACHE: RefCell<HashMap<String, Result<Vec<Rule>, String>>> = RefCell::new(HashMap::new());
}

/// GRL text -> real parser -> structural check against the generator's AST.
/// `Err(reason)` means "the parser did not hand back the program that was written" (or
/// panicked): not this property's concern, the case is skipped and counted.
pub fn parse_program(rules: &[RuleSpec]) -> Result<Vec<Rule>, String> {
    let text = program_text(rules);
    if let Some(hit) = PARSE_CACHE.with(|c| c.borrow().get(&text).cloned()) {
        return hit;
    }
    let t0 = std::time::Instant::now();
    let parsed_raw = pan::catch(|| GRLParser::parse_rules(&text));
    PARSE_NS.with(|c| c.set(c.get() + t0.elapsed().as_nanos() as u64));
    let res: Result<Vec<Rule>, String> = match parsed_raw {
        Err(p) => Err(format!("parser panicked: {}", p.msg)),
        Ok(Err(e)) => Err(format!("parser error: {}", e)),
        Ok(Ok(parsed)) => {
            if parsed.len() != rules.len() {
                Err(format!("{} rules written, {} parsed", rules.len(), parsed.len()))
            } else {
                let mut bad = None;
                for (p, w) in parsed.iter().zip(rules.iter()) {
                    if let Err(e) = rule_matches(p, w) {
                        bad = Some(format!("rule {}: {}", w.name, e));
                        break;
                    }
                }
                match bad {
                    Some(e) => Err(e),
                    None => Ok(parsed),
                }
            }
        }
    };
    PARSE_CACHE.with(|c| {
        let mut c = c.borrow_mut();
        if c.len() > 4096 {
            c.clear();
        }
        c.insert(text, res.clone());
    });
    res
}

// ------------------------------------------------------------------------------------------
// generators
// ------------------------------------------------------------------------------------------

pub const TYPES: [&str; 3] = ["Person", "Order", "Sensor"];
pub const INT_FIELDS: [&str; 2] = ["age", "qty"];
pub const STR_FIELD: &str = "tag";
pub const BOOL_FIELD: &str = "vip";
pub const INT_DOMAIN: [i64; 8] = [-3, 0, 5, 10, 18, 25, 100, 7];
/// integers that f64 cannot tell apart (2^53, 2^53 + 1) and the i64 edge: one pick in 14
pub const BIG_INTS: [i64; 6] = [9_007_199_254_740_992, 9_007_199_254_740_993, i64::MAX - 1, -9_007_199_254_740_993, i64::MAX, i64::MIN];
/// whole-number literals beyond the i64 range (the parser turns them into doubles)
pub const BIG_LITERALS: [&str; 4] = ["10000000000000000000", "9300000000000000000", "-9300000000000000000", "-20000000000000000000"];
pub fn pick_int(rng: &mut Rng) -> i64 {
    if rng.chance(1, 14) {
        *rng.pick(&BIG_INTS)
    } else {
        *rng.pick(&INT_DOMAIN)
    }
}
pub const STR_DOMAIN: [&str; 8] = ["", "a", "ab", "abc", "gold", "old", "go", "silver"];

pub fn gen_fields(rng: &mut Rng, drop_field_one_in: u32) -> Fields {
    let mut f = Fields::new();
    for k in INT_FIELDS {
        // 1 in 16 numeric fields holds a NaN
        f.insert(k.to_string(), if rng.chance(1, 16) { Val::Nan } else { Val::I(pick_int(rng)) });
    }
    f.insert(STR_FIELD.to_string(), Val::S(rng.pick(&STR_DOMAIN).to_string()));
    f.insert(BOOL_FIELD.to_string(), Val::B(rng.bool()));
    if drop_field_one_in > 0 && rng.chance(1, drop_field_one_in) {
        let keys: Vec<String> = f.keys().cloned().collect();
        let k = rng.pick(&keys).clone();
        f.remove(&k);
    }
    f
}

pub fn gen_leaf(rng: &mut Rng) -> Cond {
    match rng.below(4) {
        0 | 1 => {
            let field = rng.pick(&INT_FIELDS).to_string();
            if rng.chance(1, 40) {
                return Cond::Leaf { field, op: *rng.pick(&INT_OPS), lit: Val::Big(rng.pick(&BIG_LITERALS).to_string()) };
            }
            let base = pick_int(rng);
            let lit = base.saturating_add(rng.range(-1, 1));
            Cond::Leaf { field, op: *rng.pick(&INT_OPS), lit: Val::I(lit) }
        }
        2 => Cond::Leaf { field: STR_FIELD.into(), op: *rng.pick(&STR_OPS), lit: Val::S(rng.pick(&STR_DOMAIN).to_string()) },
        _ => Cond::Leaf { field: BOOL_FIELD.into(), op: *rng.pick(&BOOL_OPS), lit: Val::B(rng.bool()) },
    }
}

pub fn gen_cond(rng: &mut Rng, depth: u32) -> Cond {
    if depth == 0 || rng.chance(2, 5) {
        return gen_leaf(rng);
    }
    match rng.below(5) {
        0 | 1 => Cond::And(Box::new(gen_cond(rng, depth - 1)), Box::new(gen_cond(rng, depth - 1))),
        2 | 3 => Cond::Or(Box::new(gen_cond(rng, depth - 1)), Box::new(gen_cond(rng, depth - 1))),
        _ => Cond::Not(Box::new(gen_cond(rng, depth - 1))),
    }
}

pub fn gen_rule(rng: &mut Rng, i: usize, types: &[&str], mode: u32) -> RuleSpec {
    let ty = rng.pick(types).to_string();
    let cond = gen_cond(rng, 3);
    let salience = *rng.pick(&[0, 0, 5, 5, 10, 20]);
    let no_loop = match mode {
        0 => true,
        2 => rng.chance(1, 2),
        _ => rng.chance(11, 12),
    };
    let mut acts = vec![Act::Log];
    if mode != 0 && rng.chance(3, 5) {
        acts.clear();
        let n = 1 + rng.below(2);
        for _ in 0..n {
            // mostly the rule's own type (the matched fact), sometimes another one
            let aty = if rng.chance(5, 6) { ty.clone() } else { rng.pick(types).to_string() };
            let a = match rng.below(6) {
                0 | 1 => Act::Set { ty: aty, field: rng.pick(&INT_FIELDS).to_string(), val: Val::I(pick_int(rng)) },
                2 => Act::Set { ty: aty, field: STR_FIELD.into(), val: Val::S(rng.pick(&STR_DOMAIN).to_string()) },
                3 => Act::Set { ty: aty, field: BOOL_FIELD.into(), val: Val::B(rng.bool()) },
                4 => Act::Retract { ty: aty, dollar: rng.bool() },
                _ => Act::Log,
            };
            acts.push(a);
        }
    }
    RuleSpec { name: format!("R{}", i), ty, salience, no_loop, cond, acts, layout: rng.below(4) as u8 }
}

/// A pair aimed at the statement's "actions that modify or retract the matched fact": a
/// higher-salience rule whose action falsifies (or retracts) what a lower-salience rule with
/// an overlapping condition matched.
pub fn gen_invalidating_pair(rng: &mut Rng, types: &[&str]) -> Vec<RuleSpec> {
    let ty = rng.pick(types).to_string();
    let field = rng.pick(&INT_FIELDS).to_string();
    let thr = *rng.pick(&[5i64, 10, 18]);
    let cond = Cond::Leaf { field: field.clone(), op: *rng.pick(&[Op::Gt, Op::Ge]), lit: Val::I(thr) };
    let act = if rng.chance(1, 3) { Act::Retract { ty: ty.clone(), dollar: rng.bool() } } else { Act::Set { ty: ty.clone(), field: field.clone(), val: Val::I(thr - 1 - rng.below(3) as i64) } };
    let hi = RuleSpec { name: "R0".into(), ty: ty.clone(), salience: 10, no_loop: true, cond: cond.clone(), acts: vec![act], layout: rng.below(4) as u8 };
    let lo_cond = if rng.bool() { cond } else { Cond::And(Box::new(cond), Box::new(gen_leaf(rng))) };
    let lo = RuleSpec { name: "R1".into(), ty, salience: *rng.pick(&[0, 5]), no_loop: rng.chance(4, 5), cond: lo_cond, acts: vec![Act::Log], layout: rng.below(4) as u8 };
    vec![hi, lo]
}

pub fn gen_case(rng: &mut Rng) -> HistCase {
    // mode 0: Log-only, all no-loop (clause c applies); 1: modifying actions; 2: no-loop mixed
    let mode = match rng.below(20) {
        0..=7 => 0,
        8..=17 => 1,
        _ => 2,
    };
    let ntypes = 1 + rng.below(3);
    let mut tys: Vec<&str> = TYPES.to_vec();
    rng.shuffle(&mut tys);
    tys.truncate(ntypes);
    let mut rules: Vec<RuleSpec> = Vec::new();
    if mode == 1 && rng.chance(1, 2) {
        rules = gen_invalidating_pair(rng, &tys);
    }
    let nrules = 1 + rng.below(4);
    while rules.len() < nrules {
        let i = rules.len();
        rules.push(gen_rule(rng, i, &tys, mode));
    }
    let drop = if rng.chance(1, 8) { 6 } else { 0 };
    // one case in 25 is LONG: 40..=200 operations over up to 150 facts (working memory, alpha
    // memories and the agenda far beyond the handful of entries of the other cases)
    let long = rng.chance(1, 25);
    let nops = if long { 40 + rng.below(161) } else { 1 + rng.below(12) };
    let (ins_below, max_facts) = if long { (60, 150) } else { (30, 6) };
    let mut ops: Vec<HOp> = Vec::new();
    let mut nfacts = 0usize;
    for _ in 0..nops {
        let r = rng.below(100);
        if nfacts == 0 || (r < ins_below && nfacts < max_facts) {
            ops.push(HOp::Insert { slot: nfacts, ty: rng.pick(&tys).to_string(), fields: gen_fields(rng, drop) });
            nfacts += 1;
        } else if r < 55 || (long && r < 75) {
            ops.push(HOp::Update { slot: rng.below(nfacts), fields: gen_fields(rng, drop) });
        } else if r < 67 || (long && r < 85) {
            ops.push(HOp::Retract { slot: rng.below(nfacts) });
        } else if r < 92 {
            ops.push(HOp::FireAll);
        } else if r < 97 || long {
            ops.push(HOp::Reset);
        } else {
            ops.push(HOp::ClearWm);
        }
    }
    if !ops.iter().any(|o| matches!(o, HOp::FireAll)) {
        if ops.len() >= 12 && !long {
            ops.pop();
        }
        ops.push(HOp::FireAll);
    }
    HistCase { rules, ops }
}


// ------------------------------------------------------------------------------------------
// histories over an IncrementalEngine
// ------------------------------------------------------------------------------------------

#[derive(Clone, Debug, PartialEq)]
pub enum HOp {
    Insert { slot: usize, ty: String, fields: Fields },
    Update { slot: usize, fields: Fields },
    Retract { slot: usize },
    FireAll,
    Reset,
    /// `working_memory_mut().clear()`: every fact is gone; handles issued before stay retired
    ClearWm,
}

impl HOp {
    pub fn to_json(&self) -> Json {
        match self {
            HOp::Insert { slot, ty, fields } => json!({"op": "insert", "fact": slot, "type": ty, "fields": fields_to_json(fields)}),
            HOp::Update { slot, fields } => json!({"op": "update", "fact": slot, "fields": fields_to_json(fields)}),
            HOp::Retract { slot } => json!({"op": "retract", "fact": slot}),
            HOp::FireAll => json!({"op": "fire_all"}),
            HOp::Reset => json!({"op": "reset"}),
            HOp::ClearWm => json!({"op": "working_memory_clear"}),
        }
    }
    pub fn from_json(j: &Json) -> Option<HOp> {
        let slot = || j.get("fact").and_then(|v| v.as_u64()).map(|v| v as usize);
        Some(match j.get("op")?.as_str()? {
            "insert" => HOp::Insert { slot: slot()?, ty: j.get("type")?.as_str()?.to_string(), fields: fields_from_json(j.get("fields")?)? },
            "update" => HOp::Update { slot: slot()?, fields: fields_from_json(j.get("fields")?)? },
            "retract" => HOp::Retract { slot: slot()? },
            "fire_all" => HOp::FireAll,
            "reset" => HOp::Reset,
            "working_memory_clear" => HOp::ClearWm,
            _ => return None,
        })
    }
}

#[derive(Clone, Debug)]
pub struct HistCase {
    pub rules: Vec<RuleSpec>,
    pub ops: Vec<HOp>,
}

impl HistCase {
    pub fn to_json(&self) -> Json {
        json!({
            "kind": "history",
            "rules": self.rules.iter().map(|r| r.to_json()).collect::<Vec<_>>(),
            "grl": program_text(&self.rules),
            "ops": self.ops.iter().map(|o| o.to_json()).collect::<Vec<_>>(),
        })
    }
    pub fn from_json(j: &Json) -> Option<HistCase> {
        Some(HistCase {
            rules: j.get("rules")?.as_array()?.iter().map(RuleSpec::from_json).collect::<Option<Vec<_>>>()?,
            ops: j.get("ops")?.as_array()?.iter().map(HOp::from_json).collect::<Option<Vec<_>>>()?,
        })
    }
    pub fn all_log_only_no_loop(&self) -> bool {
        self.rules.iter().all(|r| r.no_loop && r.log_only())
    }
}

#[derive(Clone, Debug, PartialEq)]
pub struct Viol {
    pub clause: String,
    pub cause: String,
    pub detail: String,
}

#[derive(Default, Clone, Debug)]
pub struct HistObs {
    /// the case was not judged at all (parser did not read the program back, conversion failed)
    pub skipped: Option<String>,
    pub working_memory_clears: u64,
    pub firings: u64,
    pub fire_alls: u64,
    pub firings_judged_true: u64,
    pub undefined_firings: u64,
    pub undefined_exactness: u64,
    pub exactness_checked: u64,
    pub later_fire_alls_upper_bound_only: u64,
    pub later_fire_alls_owed_firings: u64,
    pub view_checks: u64,
    pub handles_issued: u64,
    pub rules_not_fired_when_unsatisfied: u64,
    pub firings_after_wm_change_by_action: u64,
    pub retractions_by_action: u64,
    pub updates_by_action_observed: u64,
    pub did_not_return: bool,
    pub max_actions_in_one_fire_all: u64,
    /// salience sequences of every fire_all (for C07's engine-level order clause)
    pub fired_seqs: Vec<Vec<usize>>,
    pub api_errors_on_dead_handles: u64,
}

struct FactShadow {
    slot: usize,
    ty: String,
    live: bool,
    /// last data given through the API (insert/update)
    api: Fields,
    /// distinct consecutive contents observed (after API ops, at firings, after fire_all)
    versions: Vec<Fields>,
    /// set when an action asked for a retraction we cannot attribute (RetractByType)
    uncertain: bool,
}

struct Mon {
    rules: Arc<Vec<RuleSpec>>,
    facts: BTreeMap<u64, FactShadow>,
    fired_since_reset: HashMap<usize, u32>,
    cur_call: Vec<usize>,
    flagged_in_call: BTreeSet<usize>,
    undefined_in_call: bool,
    actions_in_call: u64,
    limit: u64,
    exceeded: bool,
    wm_changed_by_action_in_call: bool,
    /// the current firing is one of those whose snapshot is examined (all of the first 256 of a
    /// call, every 16th after that: rules without no-loop run to the engine's bound of 1000)
    detailed: bool,
    viols: Vec<Viol>,
    obs: HistObs,
}

fn push_viol(v: &mut Vec<Viol>, clause: &str, cause: &str, detail: String) {
    if !v.iter().any(|x| x.clause == clause && x.cause == cause) {
        v.push(Viol { clause: clause.into(), cause: cause.into(), detail });
    }
}

/// Parse the flattened copy the engine hands to actions: keys `Type.<handle>.field`.
fn parse_flat(facts: &TypedFacts) -> BTreeMap<u64, (String, Fields)> {
    let mut out: BTreeMap<u64, (String, Fields)> = BTreeMap::new();
    for (k, v) in facts.get_all() {
        let mut it = k.splitn(3, '.');
        let (Some(ty), Some(id), Some(field)) = (it.next(), it.next(), it.next()) else { continue };
        let Ok(id) = id.parse::<u64>() else { continue };
        let e = out.entry(id).or_insert_with(|| (ty.to_string(), Fields::new()));
        e.1.insert(field.to_string(), Val::from_fact_value(v));
    }
    out
}

impl Mon {
    fn note_version(&mut self, id: u64, f: &Fields) {
        if let Some(s) = self.facts.get_mut(&id) {
            if s.versions.last() != Some(f) {
                s.versions.push(f.clone());
            }
        }
    }

    /// Called by the recorder closure BEFORE the original action runs. Returns true when the
    /// logical step bound is exceeded (the closure then unwinds).
    fn on_fire(&mut self, idx: usize, facts: &TypedFacts) -> bool {
        self.actions_in_call += 1;
        if self.actions_in_call > self.limit {
            self.exceeded = true;
            return true;
        }
        self.detailed = self.cur_call.len() < 256 || self.cur_call.len() % 16 == 0;
        self.obs.firings += 1;
        let rules = self.rules.clone();
        let rule = &rules[idx];
        let pos = self.cur_call.len();
        self.cur_call.push(idx);
        let n = self.fired_since_reset.entry(idx).or_insert(0);
        *n += 1;
        if rule.no_loop && *n > 1 {
            let d = format!("no-loop rule {} fired {} times since the last reset", rule.name, n);
            push_viol(&mut self.viols, "no-loop", "no-loop-rule-fired-twice-between-resets", d);
        }
        if !self.detailed {
            return false;
        }
        let snap = parse_flat(facts);
        for (id, (_, f)) in &snap {
            self.note_version(*id, f);
        }
        if self.wm_changed_by_action_in_call {
            self.obs.firings_after_wm_change_by_action += 1;
        }
        let other_type_fact_live = snap.values().any(|(t, _)| t != &rule.ty);
        let handle = facts.get_fact_handle(&rule.ty).map(|h| h.id());
        let foreign = rule.cond.has_not() && other_type_fact_live;
        match handle {
            None => {
                let cause = if foreign { "negated-condition-activated-by-fact-of-other-type" } else { "no-fact-of-the-rule-type-handed-to-action" };
                let d = format!(
                    "rule {} ({}) fired but the engine handed its action no live {} fact; live facts at that moment: {:?}",
                    rule.name,
                    rule.cond.grl(&rule.ty, false),
                    rule.ty,
                    snap
                );
                push_viol(&mut self.viols, "fires-on-false", cause, d);
                self.flagged_in_call.insert(pos);
            }
            Some(h) => {
                let known = self.facts.get(&h);
                let shadow_dead = matches!(known, Some(s) if !s.live && !s.uncertain);
                if known.is_none() {
                    let d = format!("rule {} fired for handle {} which insert never returned", rule.name, h);
                    push_viol(&mut self.viols, "fires-for-retracted-fact", "handle-never-issued", d);
                    self.flagged_in_call.insert(pos);
                } else if shadow_dead || !snap.contains_key(&h) {
                    let d = format!(
                        "rule {} fired for handle {} (fact #{}) which {}; live handles in the copy handed to the action: {:?}",
                        rule.name,
                        h,
                        known.map(|s| s.slot).unwrap_or(0),
                        if shadow_dead { "had been retracted" } else { "is absent from the flattened copy" },
                        snap.keys().collect::<Vec<_>>()
                    );
                    push_viol(&mut self.viols, "fires-for-retracted-fact", if shadow_dead { "matched-handle-was-retracted" } else { "matched-handle-absent-from-copy" }, d);
                    self.flagged_in_call.insert(pos);
                } else {
                    let (ty, fields) = &snap[&h];
                    if ty != &rule.ty {
                        let d = format!("rule {} on {} fired for handle {} of type {}", rule.name, rule.ty, h, ty);
                        push_viol(&mut self.viols, "fires-on-false", "matched-handle-of-other-type", d);
                        self.flagged_in_call.insert(pos);
                    } else {
                        match eval(&rule.cond, fields) {
                            Tri::True => self.obs.firings_judged_true += 1,
                            Tri::Undefined => {
                                self.obs.undefined_firings += 1;
                                self.undefined_in_call = true;
                            }
                            Tri::False => {
                                let s = &self.facts[&h];
                                let nver = s.versions.len();
                                let stale = s.versions[..nver.saturating_sub(1)].iter().any(|v| eval(&rule.cond, v) != Tri::False);
                                let cause = if stale {
                                    "stale-activation-after-modification"
                                } else if foreign {
                                    "negated-condition-activated-by-fact-of-other-type"
                                } else {
                                    "unexplained"
                                };
                                let d = format!(
                                    "rule {} fired for fact #{} (handle {}) whose contents at that moment {:?} make its condition `{}` false; earlier contents of that fact: {:?}",
                                    rule.name,
                                    s.slot,
                                    h,
                                    fields,
                                    rule.cond.grl(&rule.ty, false),
                                    &s.versions[..nver.saturating_sub(1)]
                                );
                                push_viol(&mut self.viols, "fires-on-false", cause, d);
                                self.flagged_in_call.insert(pos);
                            }
                        }
                    }
                }
            }
        }
        false
    }

    /// Called AFTER the original action: what did it ask the engine to do?
    fn after_action(&mut self, before: Option<&Fields>, after: &TypedFacts, results: &[ActionResult]) {
        if let Some(before) = before {
            if &typed_to_fields(after) != before {
                self.wm_changed_by_action_in_call = true;
                self.obs.updates_by_action_observed += 1;
            }
        }
        for r in results {
            match r {
                ActionResult::Retract(h) => {
                    if let Some(s) = self.facts.get_mut(&h.id()) {
                        if s.live {
                            s.live = false;
                            self.obs.retractions_by_action += 1;
                            self.wm_changed_by_action_in_call = true;
                        }
                    }
                }
                ActionResult::RetractByType(t) => {
                    for s in self.facts.values_mut() {
                        if &s.ty == t && s.live {
                            s.uncertain = true;
                        }
                    }
                    self.wm_changed_by_action_in_call = true;
                }
                _ => {}
            }
        }
    }
}

pub struct RunOpts {
    /// action executions per fire_all after which the recorder unwinds ("does not return")
    pub action_limit_per_rule: u64,
}

impl Default for RunOpts {
    fn default() -> Self {
        RunOpts { action_limit_per_rule: 100 * 1000 }
    }
}

pub const PANIC_MARK: &str = "rre-verif: logical step bound exceeded";

/// Build an engine from the parsed rules, every action wrapped by the recorder.
fn build_engine(parsed: Vec<Rule>, mon: &Arc<Mutex<Mon>>) -> Result<IncrementalEngine, String> {
    let mut engine = IncrementalEngine::new();
    for (idx, rule) in parsed.into_iter().enumerate() {
        let (mut rete_rule, deps) = match pan::catch(|| GrlReteLoader::verif_convert_rule(rule)) {
            Ok(Ok(x)) => x,
            Ok(Err(e)) => return Err(format!("conversion error: {}", e)),
            Err(p) => return Err(format!("conversion panicked: {}", p.msg)),
        };
        let orig = rete_rule.action.clone();
        let m = mon.clone();
        rete_rule.action = Arc::new(move |facts: &mut TypedFacts, results: &mut ActionResults| {
            let (exceeded, detailed) = {
                let mut g = m.lock().unwrap_or_else(|p| p.into_inner());
                let e = g.on_fire(idx, facts);
                (e, g.detailed)
            };
            if exceeded {
                panic!("{}", PANIC_MARK);
            }
            let before = if detailed { Some(typed_to_fields(facts)) } else { None };
            let n0 = results.results.len();
            orig(facts, results);
            let mut g = m.lock().unwrap_or_else(|p| p.into_inner());
            g.after_action(before.as_ref(), facts, &results.results[n0..]);
        });
        engine.add_rule(rete_rule, deps);
    }
    Ok(engine)
}

fn check_views(engine: &IncrementalEngine, mon: &mut Mon, after: &str, log_only: bool) {
    mon.obs.view_checks += 1;
    let wm = engine.working_memory();
    let all_handles: Vec<u64> = wm.get_all_handles().iter().map(|h| h.id()).collect();
    let all_facts: Vec<u64> = wm.get_all_facts().iter().map(|f| f.handle.id()).collect();
    let mut by_type: BTreeMap<String, Vec<u64>> = BTreeMap::new();
    for t in TYPES {
        by_type.insert(t.to_string(), wm.get_by_type(t).iter().map(|f| f.handle.id()).collect());
    }
    let dup = |v: &Vec<u64>| {
        let s: BTreeSet<u64> = v.iter().copied().collect();
        s.len() != v.len()
    };
    let mut viols: Vec<Viol> = Vec::new();
    for (name, v) in [("get_all_handles", &all_handles), ("get_all_facts", &all_facts)] {
        if dup(v) {
            push_viol(&mut viols, "views-agree", &format!("duplicate-in:{}", name), format!("after {}: {} lists a handle twice: {:?}", after, name, v));
        }
        for h in v {
            if !mon.facts.contains_key(h) {
                push_viol(&mut viols, "views-agree", &format!("unknown-handle-in:{}", name), format!("after {}: {} lists handle {} which insert never returned", after, name, h));
            }
        }
    }
    for (t, v) in &by_type {
        if dup(v) {
            push_viol(&mut viols, "views-agree", "duplicate-in:get_by_type", format!("after {}: get_by_type({}) lists a handle twice: {:?}", after, t, v));
        }
        for h in v {
            match mon.facts.get(h) {
                None => push_viol(&mut viols, "views-agree", "unknown-handle-in:get_by_type", format!("after {}: get_by_type({}) lists unknown handle {}", after, t, h)),
                Some(s) if &s.ty != t => push_viol(&mut viols, "views-agree", "fact-listed-under-other-type", format!("after {}: get_by_type({}) lists handle {} of type {}", after, t, h, s.ty)),
                _ => {}
            }
        }
    }
    let ids: Vec<u64> = mon.facts.keys().copied().collect();
    for id in ids {
        let (ty, live, uncertain, slot) = {
            let s = &mon.facts[&id];
            (s.ty.clone(), s.live, s.uncertain, s.slot)
        };
        let got = wm.get(&FactHandle::new(id));
        let in_get = got.is_some();
        let in_type = by_type.get(&ty).map(|v| v.contains(&id)).unwrap_or(false);
        let in_all = all_facts.contains(&id);
        let in_handles = all_handles.contains(&id);
        if uncertain {
            // an action retracted "some fact of the type": adopt what the views say if they agree
            if in_get == in_type && in_type == in_all && in_all == in_handles {
                let s = mon.facts.get_mut(&id).unwrap();
                s.live = in_get;
                s.uncertain = false;
                continue;
            }
        }
        for (view, present) in [("get", in_get), ("get_by_type", in_type), ("get_all_facts", in_all), ("get_all_handles", in_handles)] {
            if live && !present {
                push_viol(
                    &mut viols,
                    "views-agree",
                    &format!("active-fact-missing-from:{}", view),
                    format!("after {}: fact #{} (handle {}, type {}) is active but {} does not show it (get {}, get_by_type {}, get_all_facts {}, get_all_handles {})", after, slot, id, ty, view, in_get, in_type, in_all, in_handles),
                );
            }
            if !live && present {
                push_viol(
                    &mut viols,
                    "views-agree",
                    &format!("retracted-fact-still-in:{}", view),
                    format!("after {}: fact #{} (handle {}, type {}) was retracted but {} still shows it (get {}, get_by_type {}, get_all_facts {}, get_all_handles {})", after, slot, id, ty, view, in_get, in_type, in_all, in_handles),
                );
            }
        }
        if let Some(f) = got {
            if f.handle.id() != id || f.fact_type != ty {
                push_viol(&mut viols, "views-agree", "get-returns-other-fact", format!("after {}: get({}) returned handle {} of type {} (expected type {})", after, id, f.handle.id(), f.fact_type, ty));
            }
            let data = typed_to_fields(&f.data);
            if log_only && live {
                let api = &mon.facts[&id].api;
                if &data != api {
                    push_viol(&mut viols, "views-agree", "stored-data-differs-from-last-insert-or-update", format!("after {}: fact #{} holds {:?}, last insert/update gave {:?} and no action modifies facts", after, slot, data, api));
                }
            }
            mon.note_version(id, &data);
        }
    }
    for v in viols {
        push_viol(&mut mon.viols, &v.clause, &v.cause, v.detail);
    }
}

/// Execute one history under all monitors. Never panics for engine reasons: an engine panic
/// is reported as a violation of clause `no-panic`.
pub fn run_history(case: &HistCase, opts: &RunOpts) -> (Vec<Viol>, HistObs) {
    let parsed = match parse_program(&case.rules) {
        Ok(p) => p,
        Err(e) => {
            let obs = HistObs { skipped: Some(format!("parser: {}", e)), ..Default::default() };
            return (vec![], obs);
        }
    };
    let rules = Arc::new(case.rules.clone());
    let limit = opts.action_limit_per_rule * case.rules.len().max(1) as u64;
    let mon = Arc::new(Mutex::new(Mon {
        rules: rules.clone(),
        facts: BTreeMap::new(),
        fired_since_reset: HashMap::new(),
        cur_call: Vec::new(),
        flagged_in_call: BTreeSet::new(),
        undefined_in_call: false,
        actions_in_call: 0,
        limit,
        exceeded: false,
        wm_changed_by_action_in_call: false,
        detailed: true,
        viols: Vec::new(),
        obs: HistObs::default(),
    }));
    let mut engine = match build_engine(parsed, &mon) {
        Ok(e) => e,
        Err(e) => {
            let obs = HistObs { skipped: Some(e), ..Default::default() };
            return (vec![], obs);
        }
    };
    let log_only = case.rules.iter().all(|r| r.log_only());
    let exact_mode = case.all_log_only_no_loop();
    let mut slots: HashMap<usize, u64> = HashMap::new();
    let mut first_fire_all_done = false;
    // handles inserted or updated (accepted) since the previous fire_all
    let mut touched: std::collections::HashSet<u64> = std::collections::HashSet::new();

    fn lock(m: &Arc<Mutex<Mon>>) -> std::sync::MutexGuard<'_, Mon> {
        m.lock().unwrap_or_else(|p| p.into_inner())
    }

    for (opi, op) in case.ops.iter().enumerate() {
        let label = format!("op #{} {}", opi, op.to_json());
        let step = pan::catch_frames(|| {
            match op {
                HOp::Insert { slot, ty, fields } => {
                    if slots.contains_key(slot) {
                        return;
                    }
                    let h = engine.insert(ty.clone(), fields_to_typed(fields)).id();
                    let mut m = lock(&mon);
                    m.obs.handles_issued += 1;
                    if m.facts.contains_key(&h) {
                        let d = format!("{}: insert returned handle {} which was issued before (fact #{})", label, h, m.facts[&h].slot);
                        push_viol(&mut m.viols, "handles-never-reused", "insert-returned-issued-handle", d);
                    } else {
                        m.facts.insert(h, FactShadow { slot: *slot, ty: ty.clone(), live: true, api: fields.clone(), versions: vec![fields.clone()], uncertain: false });
                        slots.insert(*slot, h);
                        touched.insert(h);
                    }
                }
                HOp::Update { slot, fields } => {
                    let Some(&h) = slots.get(slot) else { return };
                    let r = engine.update(FactHandle::new(h), fields_to_typed(fields));
                    let mut m = lock(&mon);
                    let live = m.facts[&h].live;
                    let uncertain = m.facts[&h].uncertain;
                    if live && !uncertain {
                        if let Err(e) = &r {
                            let d = format!("{}: update of active fact #{} (handle {}) was rejected: {}", label, slot, h, e);
                            push_viol(&mut m.viols, "views-agree", "update-of-active-fact-rejected", d);
                        } else {
                            let s = m.facts.get_mut(&h).unwrap();
                            s.api = fields.clone();
                            touched.insert(h);
                        }
                    } else if r.is_err() {
                        m.obs.api_errors_on_dead_handles += 1;
                    }
                }
                HOp::Retract { slot } => {
                    let Some(&h) = slots.get(slot) else { return };
                    let r = engine.retract(FactHandle::new(h));
                    let mut m = lock(&mon);
                    let live = m.facts[&h].live;
                    let uncertain = m.facts[&h].uncertain;
                    if live && !uncertain {
                        if let Err(e) = &r {
                            let d = format!("{}: retract of active fact #{} (handle {}) was rejected: {}", label, slot, h, e);
                            push_viol(&mut m.viols, "views-agree", "retract-of-active-fact-rejected", d);
                        } else {
                            m.facts.get_mut(&h).unwrap().live = false;
                        }
                    } else if r.is_err() {
                        m.obs.api_errors_on_dead_handles += 1;
                    }
                }
                HOp::Reset => {
                    engine.reset();
                    lock(&mon).fired_since_reset.clear();
                }
                HOp::ClearWm => {
                    engine.working_memory_mut().clear();
                    let mut m = lock(&mon);
                    for s in m.facts.values_mut() {
                        s.live = false;
                        s.uncertain = false;
                    }
                    m.obs.working_memory_clears += 1;
                }
                HOp::FireAll => {
                    // what the statement promises for this call is computed BEFORE it, from the shadow
                    let (expected, exact_defined): (BTreeSet<usize>, bool) = {
                        let m = lock(&mon);
                        let mut exp = BTreeSet::new();
                        let mut defined = true;
                        for (ri, r) in rules.iter().enumerate() {
                            let mut any_true = false;
                            let mut any_undef = false;
                            for s in m.facts.values() {
                                if s.live && s.ty == r.ty {
                                    match eval(&r.cond, &s.api) {
                                        Tri::True => any_true = true,
                                        Tri::Undefined => any_undef = true,
                                        Tri::False => {}
                                    }
                                }
                            }
                            if any_true {
                                exp.insert(ri);
                            } else if any_undef {
                                defined = false;
                            }
                        }
                        (exp, defined)
                    };
                    // later fire_alls: a no-loop rule that has not fired since the last reset and is
                    // satisfied by a live fact inserted or updated since the previous fire_all owes
                    // a firing now (the statement promises it for every satisfied rule; a rule whose
                    // only satisfying facts were already there at the previous fire_all is left to
                    // the upper bounds, see DESIGN C06 (c))
                    let owed_now: BTreeSet<usize> = {
                        let m = lock(&mon);
                        rules
                            .iter()
                            .enumerate()
                            .filter(|(ri, r)| {
                                m.fired_since_reset.get(ri).copied().unwrap_or(0) == 0
                                    && m.facts.iter().any(|(h, s)| s.live && !s.uncertain && s.ty == r.ty && touched.contains(h) && eval(&r.cond, &s.api) == Tri::True)
                            })
                            .map(|(ri, _)| ri)
                            .collect()
                    };
                    {
                        let mut m = lock(&mon);
                        m.cur_call.clear();
                        m.flagged_in_call.clear();
                        m.undefined_in_call = false;
                        m.actions_in_call = 0;
                        m.wm_changed_by_action_in_call = false;
                        m.obs.fire_alls += 1;
                    }
                    let returned = engine.fire_all();
                    let mut m = lock(&mon);
                    let executed: Vec<String> = m.cur_call.iter().map(|&i| rules[i].name.clone()).collect();
                    let n_exec = m.actions_in_call;
                    if n_exec > m.obs.max_actions_in_one_fire_all {
                        m.obs.max_actions_in_one_fire_all = n_exec;
                    }
                    let seq = m.cur_call.clone();
                    if m.obs.fired_seqs.len() < 16 {
                        m.obs.fired_seqs.push(seq.clone());
                    }
                    if returned != executed {
                        let d = format!("{}: fire_all returned {:?} but the actions that ran were {:?}", label, trunc(&returned), trunc(&executed));
                        push_viol(&mut m.viols, "fired-list-matches-actions", "return-value-differs-from-executed-actions", d);
                    }
                    let fired_set: BTreeSet<usize> = seq.iter().copied().collect();
                    if exact_mode {
                        if !first_fire_all_done {
                            if !exact_defined || m.undefined_in_call {
                                m.obs.undefined_exactness += 1;
                            } else {
                                m.obs.exactness_checked += 1;
                                for ri in expected.difference(&fired_set) {
                                    let r = &rules[*ri];
                                    let d = format!(
                                        "{}: first fire_all returned {:?}; no-loop rule {} (`{}`) is satisfied by a live fact ({}) but did not fire",
                                        label,
                                        trunc(&returned),
                                        r.name,
                                        r.cond.grl(&r.ty, false),
                                        m.facts.values().filter(|s| s.live && s.ty == r.ty && eval(&r.cond, &s.api) == Tri::True).map(|s| format!("#{} {:?}", s.slot, s.api)).collect::<Vec<_>>().join(", ")
                                    );
                                    push_viol(&mut m.viols, "fires-every-satisfied-rule-once", "satisfied-no-loop-rule-did-not-fire", d);
                                }
                                m.obs.rules_not_fired_when_unsatisfied += (rules.len() - expected.len()) as u64;
                            }
                        } else {
                            m.obs.later_fire_alls_upper_bound_only += 1;
                            if exact_defined && !m.undefined_in_call {
                                m.obs.later_fire_alls_owed_firings += owed_now.len() as u64;
                                for ri in owed_now.difference(&fired_set) {
                                    let r = &rules[*ri];
                                    let d = format!(
                                        "{}: fire_all returned {:?}; no-loop rule {} (`{}`) has not fired since the last reset and is satisfied by a live fact inserted or updated since the previous fire_all ({}) but did not fire",
                                        label,
                                        trunc(&returned),
                                        r.name,
                                        r.cond.grl(&r.ty, false),
                                        m.facts.iter().filter(|(h, s)| s.live && s.ty == r.ty && touched.contains(h) && eval(&r.cond, &s.api) == Tri::True).map(|(_, s)| format!("#{} {:?}", s.slot, s.api)).collect::<Vec<_>>().join(", ")
                                    );
                                    push_viol(&mut m.viols, "fires-every-satisfied-rule-once", "rule-not-fired-since-reset-with-newly-satisfying-fact-did-not-fire", d);
                                }
                            }
                        }
                        // upper bound, first and later calls alike: a rule no live fact satisfies must not fire
                        if exact_defined && !m.undefined_in_call {
                            for (pos, ri) in seq.iter().enumerate() {
                                if !expected.contains(ri) && !m.flagged_in_call.contains(&pos) && (pos < 256 || pos % 16 == 0) {
                                    let r = &rules[*ri];
                                    let d = format!("{}: fire_all fired {} (`{}`) although no live fact satisfies it", label, r.name, r.cond.grl(&r.ty, false));
                                    push_viol(&mut m.viols, "fires-no-other-rule", "unsatisfied-rule-fired-with-satisfying-handle", d);
                                }
                            }
                        }
                    }
                    first_fire_all_done = true;
                    touched.clear();
                }
            }
        });
        if let Err(p) = step {
            let mut m = lock(&mon);
            if p.msg.contains(PANIC_MARK) || m.exceeded {
                m.obs.did_not_return = true;
                let ex = m.actions_in_call;
                if ex > m.obs.max_actions_in_one_fire_all {
                    m.obs.max_actions_in_one_fire_all = ex;
                }
            } else {
                let d = format!("{}: panic: {} at {}:{}", label, p.msg, p.file, p.line);
                push_viol(&mut m.viols, "no-panic", &format!("{}|{}", p.class(), p.frame), d);
            }
            break;
        }
        let mut m = lock(&mon);
        check_views(&engine, &mut m, &label, log_only);
    }
    let m = std::mem::replace(
        &mut *lock(&mon),
        Mon {
            rules,
            facts: BTreeMap::new(),
            fired_since_reset: HashMap::new(),
            cur_call: vec![],
            flagged_in_call: BTreeSet::new(),
            undefined_in_call: false,
            actions_in_call: 0,
            limit: 0,
            exceeded: false,
            wm_changed_by_action_in_call: false,
            detailed: true,
            viols: vec![],
            obs: HistObs::default(),
        },
    );
    drop(engine);
    (m.viols, m.obs)
}

fn trunc(v: &[String]) -> Vec<String> {
    if v.len() <= 12 {
        v.to_vec()
    } else {
        let mut o: Vec<String> = v[..12].to_vec();
        o.push(format!("… ({} in total)", v.len()));
        o
    }
}

/// Repeat a run (the engine iterates std HashMaps with per-process random state, so the same
/// case can take different paths): union of the violations of `times` runs.
pub fn run_history_repeated(case: &HistCase, opts: &RunOpts, times: usize) -> (Vec<Viol>, HistObs) {
    let mut all: Vec<Viol> = Vec::new();
    let mut obs = HistObs::default();
    for i in 0..times.max(1) {
        let (v, o) = run_history(case, opts);
        if i == 0 {
            obs = o;
        }
        for x in v {
            push_viol(&mut all, &x.clause, &x.cause, x.detail);
        }
    }
    (all, obs)
}

/// Shrink a history for one (clause, cause): drop ops, drop rules, replace sub-trees of
/// conditions by their children, drop actions — while a violation of the same clause (and, when
/// the cause is explained, the same cause) keeps showing up.
pub fn shrink_history(case: &HistCase, clause: &str, cause: &str, opts: &RunOpts) -> HistCase {
    let explained = !cause.ends_with("unexplained");
    let fails = |c: &HistCase| -> bool {
        if c.rules.is_empty() {
            return false;
        }
        let (v, _) = run_history_repeated(c, opts, 3);
        v.iter().any(|x| x.clause == clause && (!explained || x.cause == cause))
    };
    let mut cur = case.clone();
    for _round in 0..3 {
        let before = (cur.ops.len(), cur.rules.iter().map(|r| r.cond.size() + r.acts.len()).sum::<usize>(), cur.rules.len());
        // ops
        let rules = cur.rules.clone();
        let mut f = |ops: &[HOp]| fails(&HistCase { rules: rules.clone(), ops: ops.to_vec() });
        cur.ops = shrink_list(&cur.ops, &mut f);
        // rules
        let ops = cur.ops.clone();
        let mut f = |rs: &[RuleSpec]| fails(&HistCase { rules: rs.to_vec(), ops: ops.clone() });
        cur.rules = shrink_list(&cur.rules, &mut f);
        // conditions and actions of the remaining rules
        for ri in 0..cur.rules.len() {
            loop {
                let mut progressed = false;
                for cand in cond_reductions(&cur.rules[ri].cond) {
                    let mut c2 = cur.clone();
                    c2.rules[ri].cond = cand;
                    if fails(&c2) {
                        cur = c2;
                        progressed = true;
                        break;
                    }
                }
                if !progressed {
                    break;
                }
            }
            let mut ai = 0;
            while cur.rules[ri].acts.len() > 1 && ai < cur.rules[ri].acts.len() {
                let mut c2 = cur.clone();
                c2.rules[ri].acts.remove(ai);
                if fails(&c2) {
                    cur = c2;
                } else {
                    ai += 1;
                }
            }
            if cur.rules[ri].acts != vec![Act::Log] {
                let mut c2 = cur.clone();
                c2.rules[ri].acts = vec![Act::Log];
                if fails(&c2) {
                    cur = c2;
                }
            }
            if cur.rules[ri].layout != 0 {
                let mut c2 = cur.clone();
                c2.rules[ri].layout = 0;
                if fails(&c2) {
                    cur = c2;
                }
            }
        }
        // fields of inserted/updated facts: keep only what is needed
        for oi in 0..cur.ops.len() {
            let keys: Vec<String> = match &cur.ops[oi] {
                HOp::Insert { fields, .. } | HOp::Update { fields, .. } => fields.keys().cloned().collect(),
                _ => vec![],
            };
            for k in keys {
                let mut c2 = cur.clone();
                match &mut c2.ops[oi] {
                    HOp::Insert { fields, .. } | HOp::Update { fields, .. } => {
                        if fields.len() <= 1 {
                            continue;
                        }
                        fields.remove(&k);
                    }
                    _ => {}
                }
                if fails(&c2) {
                    cur = c2;
                }
            }
        }
        let after = (cur.ops.len(), cur.rules.iter().map(|r| r.cond.size() + r.acts.len()).sum::<usize>(), cur.rules.len());
        if after == before {
            break;
        }
    }
    cur
}

fn cond_reductions(c: &Cond) -> Vec<Cond> {
    let mut out = Vec::new();
    match c {
        Cond::Leaf { .. } => {}
        Cond::Not(a) => {
            out.push((**a).clone());
            for r in cond_reductions(a) {
                out.push(Cond::Not(Box::new(r)));
            }
        }
        Cond::And(a, b) | Cond::Or(a, b) => {
            out.push((**a).clone());
            out.push((**b).clone());
            let mk = |x: Cond, y: Cond| if matches!(c, Cond::And(..)) { Cond::And(Box::new(x), Box::new(y)) } else { Cond::Or(Box::new(x), Box::new(y)) };
            for r in cond_reductions(a) {
                out.push(mk(r, (**b).clone()));
            }
            for r in cond_reductions(b) {
                out.push(mk((**a).clone(), r));
            }
        }
    }
    out
}
