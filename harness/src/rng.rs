//! Deterministic PRNG (xoshiro256** seeded through SplitMix64). Every random choice of the
//! framework goes through this so that `VERIF_SEED` replays a run.

#[derive(Clone, Debug)]
pub struct Rng {
    s: [u64; 4],
}

fn splitmix(x: &mut u64) -> u64 {
    *x = x.wrapping_add(0x9E37_79B9_7F4A_7C15);
    let mut z = *x;
    z = (z ^ (z >> 30)).wrapping_mul(0xBF58_476D_1CE4_E5B9);
    z = (z ^ (z >> 27)).wrapping_mul(0x94D0_49BB_1331_11EB);
    z ^ (z >> 31)
}

impl Rng {
    pub fn new(seed: u64) -> Self {
        let mut x = seed ^ 0xA5A5_5A5A_DEAD_BEEF;
        let s = [
            splitmix(&mut x),
            splitmix(&mut x),
            splitmix(&mut x),
            splitmix(&mut x),
        ];
        Rng { s }
    }
    /// Independent stream for (seed, stream-id): used for shards and sub-generators.
    pub fn derive(seed: u64, stream: u64) -> Self {
        let mut x = seed.wrapping_mul(0x2545_F491_4F6C_DD1D) ^ stream.wrapping_mul(0x9E37_79B9_7F4A_7C15);
        let a = splitmix(&mut x);
        Rng::new(a ^ stream.rotate_left(17))
    }
    pub fn next_u64(&mut self) -> u64 {
        let r = self.s[1].wrapping_mul(5).rotate_left(7).wrapping_mul(9);
        let t = self.s[1] << 17;
        self.s[2] ^= self.s[0];
        self.s[3] ^= self.s[1];
        self.s[1] ^= self.s[2];
        self.s[0] ^= self.s[3];
        self.s[2] ^= t;
        self.s[3] = self.s[3].rotate_left(45);
        r
    }
    /// Uniform in 0..n (n > 0).
    pub fn below(&mut self, n: usize) -> usize {
        debug_assert!(n > 0);
        (self.next_u64() % (n as u64)) as usize
    }
    /// Uniform in lo..=hi.
    pub fn range(&mut self, lo: i64, hi: i64) -> i64 {
        debug_assert!(hi >= lo);
        lo + (self.next_u64() % ((hi - lo + 1) as u64)) as i64
    }
    pub fn bool(&mut self) -> bool {
        self.next_u64() & 1 == 1
    }
    /// True with probability num/den.
    pub fn chance(&mut self, num: u32, den: u32) -> bool {
        (self.next_u64() % den as u64) < num as u64
    }
    pub fn pick<'a, T>(&mut self, xs: &'a [T]) -> &'a T {
        &xs[self.below(xs.len())]
    }
    pub fn shuffle<T>(&mut self, xs: &mut [T]) {
        for i in (1..xs.len()).rev() {
            let j = self.below(i + 1);
            xs.swap(i, j);
        }
    }
    pub fn f64_unit(&mut self) -> f64 {
        (self.next_u64() >> 11) as f64 / (1u64 << 53) as f64
    }
}
