//! Shared by c09 / c10 / c11 (included with `#[path = "../bc_common.rs"] mod bc_common;`).
//!
//! * the generator's own AST of Horn-style knowledge bases, fact stores, atomic goals and
//!   engine configurations, with GRL / query *text* rendering (the real parser reads the text;
//!   the parsed rules are compared structurally with the AST before a case is judged),
//! * JSON (de)serialisation of all of it (a case re-executes from its JSON alone),
//! * the three-valued comparison evaluator restricted to the typed core (DESIGN §4.2),
//! * the reference models of DESIGN §5 C09: the multi-valued least fixpoint of the Horn rules
//!   (an over-approximation of everything any firing sequence can derive) and the definite
//!   derivation heights in the single-valued fragment,
//! * one function that runs ONE query against the real engine and records what came back.

#![allow(dead_code)]

use rre_verif::*;
use rust_rule_engine::backward::search::SearchStrategy;
use rust_rule_engine::backward::{BackwardConfig, BackwardEngine};
use rust_rule_engine::engine::rule::{Condition, ConditionExpression, ConditionGroup, Rule};
use rust_rule_engine::parser::grl::GRLParser;
use rust_rule_engine::types::{ActionType, LogicalOperator, Operator, Value};
use rust_rule_engine::{Facts, KnowledgeBase};
use std::collections::{BTreeMap, BTreeSet, HashMap};

// ------------------------------------------------------------------------------------------
// AST
// ------------------------------------------------------------------------------------------

#[derive(Clone, Debug, PartialEq, Eq, Hash, PartialOrd, Ord)]
pub enum Lit {
    B(bool),
    S(String),
    I(i64),
}

#[derive(Clone, Copy, Debug, PartialEq, Eq, Hash, PartialOrd, Ord)]
pub enum Op {
    Eq,
    Ne,
    Lt,
    Le,
    Gt,
    Ge,
    Contains,
    StartsWith,
    EndsWith,
}

impl Op {
    pub fn text(self) -> &'static str {
        match self {
            Op::Eq => "==",
            Op::Ne => "!=",
            Op::Lt => "<",
            Op::Le => "<=",
            Op::Gt => ">",
            Op::Ge => ">=",
            Op::Contains => "contains",
            Op::StartsWith => "startsWith",
            Op::EndsWith => "endsWith",
        }
    }
    pub fn from_text(s: &str) -> Option<Op> {
        Some(match s {
            "==" => Op::Eq,
            "!=" => Op::Ne,
            "<" => Op::Lt,
            "<=" => Op::Le,
            ">" => Op::Gt,
            ">=" => Op::Ge,
            "contains" => Op::Contains,
            "startsWith" => Op::StartsWith,
            "endsWith" => Op::EndsWith,
            _ => return None,
        })
    }
    fn engine(self) -> Operator {
        match self {
            Op::Eq => Operator::Equal,
            Op::Ne => Operator::NotEqual,
            Op::Lt => Operator::LessThan,
            Op::Le => Operator::LessThanOrEqual,
            Op::Gt => Operator::GreaterThan,
            Op::Ge => Operator::GreaterThanOrEqual,
            Op::Contains => Operator::Contains,
            Op::StartsWith => Operator::StartsWith,
            Op::EndsWith => Operator::EndsWith,
        }
    }
    pub fn is_ordering(self) -> bool {
        matches!(self, Op::Lt | Op::Le | Op::Gt | Op::Ge)
    }
}

#[derive(Clone, Debug, PartialEq, Eq, Hash)]
pub struct Atom {
    pub field: String,
    pub op: Op,
    pub lit: Lit,
}

#[derive(Clone, Debug, PartialEq, Eq, Hash)]
pub enum Cond {
    Atom(Atom),
    And(Box<Cond>, Box<Cond>),
    Or(Box<Cond>, Box<Cond>),
}

#[derive(Clone, Debug, PartialEq, Eq, Hash)]
pub struct RuleG {
    pub name: String,
    pub salience: i32,
    pub cond: Cond,
    pub sets: Vec<(String, Lit)>,
}

#[derive(Clone, Debug, PartialEq, Eq, Hash, Default)]
pub struct Kb {
    pub rules: Vec<RuleG>,
}

/// The caller's fact store. `nested`: dotted fields `T.x` are handed over as one object `T`
/// with member `x` (read through `get_nested`), otherwise as flat keys `"T.x"`.
#[derive(Clone, Debug, PartialEq, Eq, Hash, Default)]
pub struct FactsG {
    pub nested: bool,
    pub values: Vec<(String, Lit)>,
}

#[derive(Clone, Copy, Debug, PartialEq, Eq, Hash)]
pub enum Strat {
    Dfs,
    Bfs,
    Iter,
}

impl Strat {
    pub fn name(self) -> &'static str {
        match self {
            Strat::Dfs => "dfs",
            Strat::Bfs => "bfs",
            Strat::Iter => "iterative",
        }
    }
    pub fn from_name(s: &str) -> Option<Strat> {
        Some(match s {
            "dfs" => Strat::Dfs,
            "bfs" => Strat::Bfs,
            "iterative" => Strat::Iter,
            _ => return None,
        })
    }
}

#[derive(Clone, Debug, PartialEq, Eq, Hash)]
pub struct Cfg {
    pub max_depth: usize,
    pub strat: Strat,
    pub max_solutions: usize,
    pub memo: bool,
}

impl Cfg {
    pub fn engine(&self) -> BackwardConfig {
        BackwardConfig {
            max_depth: self.max_depth,
            strategy: match self.strat {
                Strat::Dfs => SearchStrategy::DepthFirst,
                Strat::Bfs => SearchStrategy::BreadthFirst,
                Strat::Iter => SearchStrategy::Iterative,
            },
            enable_memoization: self.memo,
            max_solutions: self.max_solutions,
        }
    }
}

impl Cond {
    pub fn atoms<'a>(&'a self, out: &mut Vec<&'a Atom>) {
        match self {
            Cond::Atom(a) => out.push(a),
            Cond::And(l, r) | Cond::Or(l, r) => {
                l.atoms(out);
                r.atoms(out);
            }
        }
    }
    pub fn atoms_mut<'a>(&'a mut self, out: &mut Vec<&'a mut Atom>) {
        match self {
            Cond::Atom(a) => out.push(a),
            Cond::And(l, r) | Cond::Or(l, r) => {
                l.atoms_mut(out);
                r.atoms_mut(out);
            }
        }
    }
    pub fn is_conjunctive(&self) -> bool {
        match self {
            Cond::Atom(_) => true,
            Cond::And(l, r) => l.is_conjunctive() && r.is_conjunctive(),
            Cond::Or(_, _) => false,
        }
    }
    pub fn depth(&self) -> usize {
        match self {
            Cond::Atom(_) => 0,
            Cond::And(l, r) | Cond::Or(l, r) => 1 + l.depth().max(r.depth()),
        }
    }
    /// every condition obtained by replacing one compound node by one of its children
    pub fn simplifications(&self) -> Vec<Cond> {
        let mut out = Vec::new();
        match self {
            Cond::Atom(_) => {}
            Cond::And(l, r) | Cond::Or(l, r) => {
                out.push((**l).clone());
                out.push((**r).clone());
                let is_and = matches!(self, Cond::And(_, _));
                for ls in l.simplifications() {
                    out.push(if is_and {
                        Cond::And(Box::new(ls), r.clone())
                    } else {
                        Cond::Or(Box::new(ls), r.clone())
                    });
                }
                for rs in r.simplifications() {
                    out.push(if is_and {
                        Cond::And(l.clone(), Box::new(rs))
                    } else {
                        Cond::Or(l.clone(), Box::new(rs))
                    });
                }
            }
        }
        out
    }
}

// ------------------------------------------------------------------------------------------
// Text rendering (what the real parsers read)
// ------------------------------------------------------------------------------------------

impl Lit {
    pub fn text(&self) -> String {
        match self {
            Lit::B(b) => b.to_string(),
            Lit::S(s) => format!("\"{}\"", s),
            Lit::I(i) => i.to_string(),
        }
    }
    pub fn value(&self) -> Value {
        match self {
            Lit::B(b) => Value::Boolean(*b),
            Lit::S(s) => Value::String(s.clone()),
            Lit::I(i) => Value::Integer(*i),
        }
    }
    pub fn val(&self) -> Val {
        match self {
            Lit::B(b) => Val::B(*b),
            Lit::S(s) => Val::S(s.clone()),
            Lit::I(i) => Val::I(*i),
        }
    }
}

impl Atom {
    pub fn text(&self) -> String {
        format!("{} {} {}", self.field, self.op.text(), self.lit.text())
    }
}

impl Cond {
    pub fn text(&self) -> String {
        fn child(c: &Cond) -> String {
            match c {
                Cond::Atom(a) => a.text(),
                _ => format!("({})", c.text()),
            }
        }
        match self {
            Cond::Atom(a) => a.text(),
            Cond::And(l, r) => format!("{} && {}", child(l), child(r)),
            Cond::Or(l, r) => format!("{} || {}", child(l), child(r)),
        }
    }
}

impl RuleG {
    pub fn grl(&self) -> String {
        let mut s = String::new();
        if self.salience != 0 {
            s.push_str(&format!("rule \"{}\" salience {} {{\n", self.name, self.salience));
        } else {
            s.push_str(&format!("rule \"{}\" {{\n", self.name));
        }
        s.push_str(&format!("    when\n        {}\n    then\n", self.cond.text()));
        for (f, v) in &self.sets {
            s.push_str(&format!("        {} = {};\n", f, v.text()));
        }
        s.push_str("}\n");
        s
    }
}

impl Kb {
    pub fn grl(&self) -> String {
        self.rules.iter().map(|r| r.grl()).collect::<Vec<_>>().join("\n")
    }
}

// ------------------------------------------------------------------------------------------
// JSON
// ------------------------------------------------------------------------------------------

pub fn lit_to_json(l: &Lit) -> Json {
    match l {
        Lit::B(b) => json!(b),
        Lit::S(s) => json!(s),
        Lit::I(i) => json!(i),
    }
}
pub fn lit_from_json(j: &Json) -> Option<Lit> {
    match j {
        Json::Bool(b) => Some(Lit::B(*b)),
        Json::String(s) => Some(Lit::S(s.clone())),
        Json::Number(n) => n.as_i64().map(Lit::I),
        _ => None,
    }
}
pub fn atom_to_json(a: &Atom) -> Json {
    json!({"f": a.field, "op": a.op.text(), "v": lit_to_json(&a.lit)})
}
pub fn atom_from_json(j: &Json) -> Option<Atom> {
    Some(Atom {
        field: j.get("f")?.as_str()?.to_string(),
        op: Op::from_text(j.get("op")?.as_str()?)?,
        lit: lit_from_json(j.get("v")?)?,
    })
}
pub fn cond_to_json(c: &Cond) -> Json {
    match c {
        Cond::Atom(a) => atom_to_json(a),
        Cond::And(l, r) => json!({"and": [cond_to_json(l), cond_to_json(r)]}),
        Cond::Or(l, r) => json!({"or": [cond_to_json(l), cond_to_json(r)]}),
    }
}
pub fn cond_from_json(j: &Json) -> Option<Cond> {
    if let Some(a) = j.get("and") {
        let a = a.as_array()?;
        return Some(Cond::And(
            Box::new(cond_from_json(a.first()?)?),
            Box::new(cond_from_json(a.get(1)?)?),
        ));
    }
    if let Some(a) = j.get("or") {
        let a = a.as_array()?;
        return Some(Cond::Or(
            Box::new(cond_from_json(a.first()?)?),
            Box::new(cond_from_json(a.get(1)?)?),
        ));
    }
    atom_from_json(j).map(Cond::Atom)
}
pub fn kb_to_json(kb: &Kb) -> Json {
    Json::Array(
        kb.rules
            .iter()
            .map(|r| {
                json!({
                    "name": r.name,
                    "salience": r.salience,
                    "when": cond_to_json(&r.cond),
                    "when_text": r.cond.text(),
                    "then": r.sets.iter().map(|(f, v)| json!([f, lit_to_json(v)])).collect::<Vec<_>>(),
                })
            })
            .collect(),
    )
}
pub fn kb_from_json(j: &Json) -> Option<Kb> {
    let mut rules = Vec::new();
    for r in j.as_array()? {
        let mut sets = Vec::new();
        for s in r.get("then")?.as_array()? {
            let s = s.as_array()?;
            sets.push((s.first()?.as_str()?.to_string(), lit_from_json(s.get(1)?)?));
        }
        rules.push(RuleG {
            name: r.get("name")?.as_str()?.to_string(),
            salience: r.get("salience").and_then(|v| v.as_i64()).unwrap_or(0) as i32,
            cond: cond_from_json(r.get("when")?)?,
            sets,
        });
    }
    Some(Kb { rules })
}
pub fn facts_to_json(f: &FactsG) -> Json {
    json!({
        "nested": f.nested,
        "values": f.values.iter().map(|(k, v)| json!([k, lit_to_json(v)])).collect::<Vec<_>>(),
    })
}
pub fn facts_from_json(j: &Json) -> Option<FactsG> {
    let mut values = Vec::new();
    for s in j.get("values")?.as_array()? {
        let s = s.as_array()?;
        values.push((s.first()?.as_str()?.to_string(), lit_from_json(s.get(1)?)?));
    }
    Some(FactsG {
        nested: j.get("nested").and_then(|v| v.as_bool()).unwrap_or(false),
        values,
    })
}
pub fn cfg_to_json(c: &Cfg) -> Json {
    json!({"max_depth": c.max_depth, "strategy": c.strat.name(), "max_solutions": c.max_solutions, "memoization": c.memo})
}
pub fn cfg_from_json(j: &Json) -> Option<Cfg> {
    Some(Cfg {
        max_depth: j.get("max_depth")?.as_u64()? as usize,
        strat: Strat::from_name(j.get("strategy")?.as_str()?)?,
        max_solutions: j.get("max_solutions")?.as_u64()? as usize,
        memo: j.get("memoization").and_then(|v| v.as_bool()).unwrap_or(false),
    })
}

/// One query case of C09 / C10(a).
#[derive(Clone, Debug, PartialEq, Eq, Hash)]
pub struct QCase {
    pub kb: Kb,
    pub facts: FactsG,
    pub goal: Atom,
    pub cfg: Cfg,
    /// another spelling of the goal's (integer) literal in the query text, e.g. `0.5e1` for 5
    pub goal_spelling: Option<String>,
}

/// `0.5e1` for 5, `-0.2e1` for -2: the same number with a mantissa that differs from it
pub fn exponent_spelling(i: i64) -> String {
    format!("{}e1", i as f64 / 10.0)
}

impl QCase {
    /// the query text as asked
    pub fn goal_text(&self) -> String {
        match &self.goal_spelling {
            Some(sp) => format!("{} {} {}", self.goal.field, self.goal.op.text(), sp),
            None => self.goal.text(),
        }
    }
    pub fn to_json(&self) -> Json {
        json!({
            "rules": kb_to_json(&self.kb),
            "grl": self.kb.grl(),
            "facts": facts_to_json(&self.facts),
            "goal": atom_to_json(&self.goal),
            "goal_text": self.goal_text(),
            "goal_literal_spelling": self.goal_spelling,
            "config": cfg_to_json(&self.cfg),
        })
    }
    pub fn from_json(j: &Json) -> Option<QCase> {
        Some(QCase {
            kb: kb_from_json(j.get("rules")?)?,
            facts: facts_from_json(j.get("facts")?)?,
            goal: atom_from_json(j.get("goal")?)?,
            cfg: cfg_from_json(j.get("config")?)?,
            goal_spelling: j.get("goal_literal_spelling").and_then(|v| v.as_str()).map(|s| s.to_string()),
        })
    }
}

// ------------------------------------------------------------------------------------------
// Three-valued evaluator on the typed core (DESIGN §4.2)
// ------------------------------------------------------------------------------------------

#[derive(Clone, Debug, PartialEq, Eq, Hash, PartialOrd, Ord)]
pub enum Val {
    B(bool),
    S(String),
    I(i64),
    /// float, by bit pattern (only ever comes back from the engine)
    F(u64),
    /// anything outside the typed core (object, array, null stored explicitly, expression)
    Other(String),
}

impl Val {
    pub fn from_value(v: &Value) -> Val {
        match v {
            Value::Boolean(b) => Val::B(*b),
            Value::String(s) => Val::S(s.clone()),
            Value::Integer(i) => Val::I(*i),
            Value::Number(n) => Val::F(n.to_bits()),
            other => Val::Other(format!("{:?}", other)),
        }
    }
}

#[derive(Clone, Copy, Debug, PartialEq, Eq)]
pub enum Tv {
    True,
    False,
    Undefined,
}

/// What reading one field of a store gives.
#[derive(Clone, Debug, PartialEq, Eq)]
pub enum Look {
    Missing,
    Is(Val),
    /// the nested and the flat spelling of the path are both present with different values
    Ambiguous,
}

/// Evaluate `value op literal`. `None` = the field is missing (reads as null).
pub fn eval_atom(v: Option<&Val>, op: Op, lit: &Lit) -> Tv {
    let Some(v) = v else {
        // missing == literal: false; missing != literal: true; ordering / string predicates
        // on null: false (DESIGN §4.2)
        return if op == Op::Ne { Tv::True } else { Tv::False };
    };
    let b = |x: bool| if x { Tv::True } else { Tv::False };
    match op {
        Op::Eq | Op::Ne => {
            let eq = match (v, lit) {
                (Val::B(a), Lit::B(c)) => a == c,
                (Val::S(a), Lit::S(c)) => a == c,
                (Val::I(a), Lit::I(c)) => a == c,
                // any cross-type equality is left open by the documentation
                _ => return Tv::Undefined,
            };
            b(if op == Op::Eq { eq } else { !eq })
        }
        Op::Lt | Op::Le | Op::Gt | Op::Ge => {
            let (a, c) = match (v, lit) {
                (Val::I(a), Lit::I(c)) => (*a as f64, *c as f64),
                (Val::F(a), Lit::I(c)) => {
                    let a = f64::from_bits(*a);
                    if a.is_nan() {
                        return Tv::Undefined;
                    }
                    (a, *c as f64)
                }
                _ => return Tv::Undefined,
            };
            b(match op {
                Op::Lt => a < c,
                Op::Le => a <= c,
                Op::Gt => a > c,
                _ => a >= c,
            })
        }
        Op::Contains | Op::StartsWith | Op::EndsWith => match (v, lit) {
            (Val::S(a), Lit::S(c)) => b(match op {
                Op::Contains => a.contains(c.as_str()),
                Op::StartsWith => a.starts_with(c.as_str()),
                _ => a.ends_with(c.as_str()),
            }),
            _ => Tv::Undefined,
        },
    }
}

/// Read `field` from a fact map the way the documentation describes (nested path first, flat
/// key otherwise); both present with different values is `Ambiguous`.
pub fn lookup(all: &HashMap<String, Value>, field: &str) -> Look {
    let flat = all.get(field).map(Val::from_value);
    let nested = if let Some((head, rest)) = field.split_once('.') {
        let mut cur = all.get(head);
        for part in rest.split('.') {
            cur = match cur {
                Some(Value::Object(m)) => m.get(part),
                _ => None,
            };
        }
        cur.map(Val::from_value)
    } else {
        None
    };
    match (nested, flat) {
        (None, None) => Look::Missing,
        (Some(v), None) | (None, Some(v)) => Look::Is(v),
        (Some(a), Some(b)) => {
            if a == b {
                Look::Is(a)
            } else {
                Look::Ambiguous
            }
        }
    }
}

pub fn eval_goal_on(all: &HashMap<String, Value>, goal: &Atom) -> Tv {
    match lookup(all, &goal.field) {
        Look::Missing => eval_atom(None, goal.op, &goal.lit),
        Look::Is(v) => eval_atom(Some(&v), goal.op, &goal.lit),
        Look::Ambiguous => Tv::Undefined,
    }
}

// ------------------------------------------------------------------------------------------
// Reference models (DESIGN §5 C09)
// ------------------------------------------------------------------------------------------

/// Multi-valued least fixpoint: every value any firing sequence could ever put on a field.
#[derive(Clone, Debug, Default)]
pub struct Closure {
    /// non-null values a field may take (initial value included)
    pub poss: BTreeMap<String, BTreeSet<Val>>,
    /// fields present in the initial facts
    pub initial: BTreeSet<String>,
    /// an atom was decided on an `Undefined` comparison somewhere
    pub undefined_seen: bool,
    /// number of (field, value) pairs that are derived, not initial
    pub derived: usize,
    /// rules whose condition is satisfiable in the closure
    pub fireable: BTreeSet<String>,
}

impl Closure {
    fn atom_sat(&self, a: &Atom, undef: &mut bool) -> bool {
        let mut sat = false;
        if let Some(vs) = self.poss.get(&a.field) {
            for v in vs {
                match eval_atom(Some(v), a.op, &a.lit) {
                    Tv::True => sat = true,
                    Tv::Undefined => {
                        *undef = true;
                        sat = true; // over-approximate
                    }
                    Tv::False => {}
                }
            }
        }
        if !self.initial.contains(&a.field) && eval_atom(None, a.op, &a.lit) == Tv::True {
            sat = true;
        }
        sat
    }
    fn cond_sat(&self, c: &Cond, undef: &mut bool) -> bool {
        match c {
            Cond::Atom(a) => self.atom_sat(a, undef),
            // both sides are always evaluated so that `undef` does not depend on short-circuiting
            Cond::And(l, r) => {
                let a = self.cond_sat(l, undef);
                let b = self.cond_sat(r, undef);
                a && b
            }
            Cond::Or(l, r) => {
                let a = self.cond_sat(l, undef);
                let b = self.cond_sat(r, undef);
                a || b
            }
        }
    }
    pub fn goal_sat(&self, g: &Atom) -> Tv {
        let mut undef = false;
        let s = self.atom_sat(g, &mut undef);
        if undef {
            Tv::Undefined
        } else if s {
            Tv::True
        } else {
            Tv::False
        }
    }
    pub fn nonnull(&self, f: &str) -> usize {
        self.poss.get(f).map(|s| s.len()).unwrap_or(0)
    }
    /// at most one non-null value ever: positive atoms on the field are monotone
    pub fn stable_pos(&self, f: &str) -> bool {
        self.nonnull(f) <= 1
    }
    /// exactly one state ever (one initial value never overwritten, or never present)
    pub fn stable_full(&self, f: &str) -> bool {
        if self.initial.contains(f) {
            self.nonnull(f) == 1
        } else {
            self.nonnull(f) == 0
        }
    }
}

pub fn closure(kb: &Kb, facts: &FactsG) -> Closure {
    let mut c = Closure::default();
    for (k, v) in &facts.values {
        c.poss.entry(k.clone()).or_default().insert(v.val());
        c.initial.insert(k.clone());
    }
    let n0: usize = c.poss.values().map(|s| s.len()).sum();
    loop {
        let mut changed = false;
        for r in &kb.rules {
            let mut undef = false;
            if c.cond_sat(&r.cond, &mut undef) {
                c.undefined_seen |= undef;
                c.fireable.insert(r.name.clone());
                for (f, v) in &r.sets {
                    if c.poss.entry(f.clone()).or_default().insert(v.val()) {
                        changed = true;
                    }
                }
            }
        }
        if !changed {
            break;
        }
    }
    let n1: usize = c.poss.values().map(|s| s.len()).sum();
    c.derived = n1 - n0;
    c
}

/// Height of the cheapest derivation of `goal` that the bounded-completeness clause of C09 talks
/// about: only rules with conjunctive conditions, only fields that are single-valued in the
/// closure (a `!=` atom additionally needs a field whose presence never changes). Initial facts
/// have height 0, one rule application adds 1. `None`: no such derivation (then the clause says
/// nothing).
pub fn definite_height(kb: &Kb, facts: &FactsG, goal: &Atom, clo: &Closure) -> Option<usize> {
    let mut def: BTreeMap<String, (Val, usize)> = BTreeMap::new();
    for (k, v) in &facts.values {
        def.insert(k.clone(), (v.val(), 0));
    }
    let atom_h = |def: &BTreeMap<String, (Val, usize)>, a: &Atom| -> Option<usize> {
        let usable = if a.op == Op::Ne {
            clo.stable_full(&a.field)
        } else {
            clo.stable_pos(&a.field)
        };
        if !usable {
            return None;
        }
        match def.get(&a.field) {
            Some((v, h)) => (eval_atom(Some(v), a.op, &a.lit) == Tv::True).then_some(*h),
            None => (eval_atom(None, a.op, &a.lit) == Tv::True).then_some(0),
        }
    };
    loop {
        let mut changed = false;
        for r in &kb.rules {
            if !r.cond.is_conjunctive() {
                continue;
            }
            let mut atoms = Vec::new();
            r.cond.atoms(&mut atoms);
            let mut h = 0usize;
            let mut ok = true;
            for a in atoms {
                match atom_h(&def, a) {
                    Some(x) => h = h.max(x),
                    None => {
                        ok = false;
                        break;
                    }
                }
            }
            if !ok {
                continue;
            }
            for (f, v) in &r.sets {
                let better = match def.get(f) {
                    None => true,
                    Some((ov, oh)) => *ov == v.val() && h + 1 < *oh,
                };
                if better {
                    def.insert(f.clone(), (v.val(), h + 1));
                    changed = true;
                }
            }
        }
        if !changed {
            break;
        }
    }
    atom_h(&def, goal)
}

// ------------------------------------------------------------------------------------------
// Building the real objects
// ------------------------------------------------------------------------------------------

fn cond_matches(c: &Cond, g: &ConditionGroup) -> bool {
    match (c, g) {
        (Cond::Atom(a), ConditionGroup::Single(s)) => {
            matches!(&s.expression, ConditionExpression::Field(f) if *f == a.field)
                && s.operator == a.op.engine()
                && s.value == a.lit.value()
        }
        (Cond::And(l, r), ConditionGroup::Compound { left, operator: LogicalOperator::And, right })
        | (Cond::Or(l, r), ConditionGroup::Compound { left, operator: LogicalOperator::Or, right }) => {
            cond_matches(l, left) && cond_matches(r, right)
        }
        _ => false,
    }
}

fn rule_matches(r: &RuleG, p: &Rule) -> bool {
    if r.name != p.name || r.salience != p.salience || !p.enabled || p.no_loop {
        return false;
    }
    if !cond_matches(&r.cond, &p.conditions) || r.sets.len() != p.actions.len() {
        return false;
    }
    r.sets.iter().zip(&p.actions).all(|((f, v), a)| match a {
        ActionType::Set { field, value } => field == f && *value == v.value(),
        _ => false,
    })
}

/// Parse the GRL text with the real parser and check that what came back is the generator's
/// AST (parser defects belong to C04: such a case is skipped and counted, never judged here).
pub fn parse_kb(kb: &Kb) -> Result<Vec<Rule>, String> {
    if kb.rules.is_empty() {
        return Ok(vec![]);
    }
    let text = kb.grl();
    let parsed = match pan::catch(|| GRLParser::parse_rules(&text)) {
        Ok(Ok(p)) => p,
        Ok(Err(e)) => return Err(format!("parse error: {:?}", e)),
        Err(p) => return Err(format!("parser panic: {}", p.msg)),
    };
    if parsed.len() != kb.rules.len() {
        return Err(format!("{} rules written, {} parsed", kb.rules.len(), parsed.len()));
    }
    for (r, p) in kb.rules.iter().zip(&parsed) {
        if !rule_matches(r, p) {
            return Err(format!("rule {} parsed differently from what was written", r.name));
        }
    }
    Ok(parsed)
}

fn cond_build(c: &Cond) -> ConditionGroup {
    match c {
        Cond::Atom(a) => ConditionGroup::Single(Condition::new(a.field.clone(), a.op.engine(), a.lit.value())),
        Cond::And(l, r) => ConditionGroup::and(cond_build(l), cond_build(r)),
        Cond::Or(l, r) => ConditionGroup::or(cond_build(l), cond_build(r)),
    }
}

/// The same rules built through the library's constructors (used only while shrinking, where
/// thousands of variants are tried; the shrunk case is re-validated through the parser).
pub fn build_rules_direct(kb: &Kb) -> Vec<Rule> {
    kb.rules
        .iter()
        .map(|r| {
            Rule::new(
                r.name.clone(),
                cond_build(&r.cond),
                r.sets
                    .iter()
                    .map(|(f, v)| ActionType::Set { field: f.clone(), value: v.value() })
                    .collect(),
            )
            .with_salience(r.salience)
        })
        .collect()
}

pub fn make_kb(rules: &[Rule]) -> Result<KnowledgeBase, String> {
    let kb = KnowledgeBase::new("verif");
    for r in rules {
        kb.add_rule(r.clone()).map_err(|e| format!("add_rule: {:?}", e))?;
    }
    Ok(kb)
}

pub fn make_facts(f: &FactsG) -> Facts {
    let facts = Facts::new();
    let mut objects: BTreeMap<String, HashMap<String, Value>> = BTreeMap::new();
    for (k, v) in &f.values {
        match k.split_once('.') {
            Some((head, rest)) if f.nested => {
                objects.entry(head.to_string()).or_default().insert(rest.to_string(), v.value());
            }
            _ => {
                facts.set(k, v.value());
            }
        }
    }
    for (head, m) in objects {
        facts.set(&head, Value::Object(m));
    }
    facts
}

/// Rebuild an independent `Facts` from a snapshot of another one (a `Facts::clone()` shares
/// the storage, so it is not a copy).
pub fn facts_from_map(all: &HashMap<String, Value>) -> Facts {
    let facts = Facts::new();
    for (k, v) in all {
        facts.set(k, v.clone());
    }
    facts
}

// ------------------------------------------------------------------------------------------
// One monitored query
// ------------------------------------------------------------------------------------------

#[derive(Clone, Debug)]
pub struct QObs {
    /// Ok((provable, number of recorded solutions, shortest recorded solution path)) | Err(text) | panic
    pub outcome: Outcome,
    pub before: HashMap<String, Value>,
    pub after: HashMap<String, Value>,
    pub undo_before: usize,
    pub undo_after: usize,
    pub goals_explored: usize,
}

#[derive(Clone, Debug)]
pub enum Outcome {
    Answer { provable: bool, solutions: usize },
    Error(String),
    Panic(String),
}

impl QObs {
    pub fn provable(&self) -> Option<bool> {
        match &self.outcome {
            Outcome::Answer { provable, .. } => Some(*provable),
            _ => None,
        }
    }
}

pub fn run_query_on(engine: &mut BackwardEngine, facts: &mut Facts, goal_text: &str) -> QObs {
    let before = facts.get_all_facts();
    let undo_before = facts.verif_undo_depth();
    let r = pan::catch_frames(|| engine.query(goal_text, facts));
    let after = facts.get_all_facts();
    let undo_after = facts.verif_undo_depth();
    let (outcome, goals_explored) = match r {
        Ok(Ok(q)) => (
            Outcome::Answer { provable: q.provable, solutions: q.solutions.len() },
            q.stats.goals_explored,
        ),
        Ok(Err(e)) => (Outcome::Error(format!("{:?}", e)), 0),
        Err(p) => (Outcome::Panic(format!("{} at {}:{} [{}|{}]", p.msg, p.file, p.line, p.class(), p.frame)), 0),
    };
    QObs { outcome, before, after, undo_before, undo_after, goals_explored }
}

/// Fresh KnowledgeBase + fresh engine + fresh facts, one query given as text.
pub fn run_query_text(rules: &[Rule], facts: &FactsG, text: &str, cfg: &Cfg) -> Result<QObs, String> {
    let kb = make_kb(rules)?;
    let mut engine = BackwardEngine::with_config(kb, cfg.engine());
    let mut f = make_facts(facts);
    Ok(run_query_on(&mut engine, &mut f, text))
}

/// Fresh KnowledgeBase + fresh engine + fresh facts, one query.
#[allow(dead_code)]
pub fn run_query(rules: &[Rule], facts: &FactsG, goal: &Atom, cfg: &Cfg) -> Result<QObs, String> {
    let kb = make_kb(rules)?;
    let mut engine = BackwardEngine::with_config(kb, cfg.engine());
    let mut f = make_facts(facts);
    Ok(run_query_on(&mut engine, &mut f, &goal.text()))
}

/// Rules the engine's conclusion index offers for the top-level goal. The index hands them over
/// as a `HashSet`, so with two or more the order in which they are tried differs from engine
/// instance to engine instance: such a case is run several times (see README of the checks).
pub fn top_candidates(kb: &Kb, goal: &Atom) -> usize {
    let prefix = goal.field.rsplit_once('.').map(|(o, _)| o.to_string());
    kb.rules
        .iter()
        .filter(|r| {
            r.sets.iter().any(|(f, _)| {
                *f == goal.field || prefix.as_ref().map(|p| f.starts_with(p.as_str())).unwrap_or(false)
            })
        })
        .count()
}

// ------------------------------------------------------------------------------------------
// Generators
// ------------------------------------------------------------------------------------------

#[derive(Clone, Copy, Debug, PartialEq, Eq)]
pub enum Ty {
    Bool,
    Str,
    Int,
}

/// (two names begin with the letters of the NOT keyword: a goal is negated by the WORD `NOT`, not
/// by a name that happens to start like it)
pub const FIELDS: [(&str, Ty); 10] = [
    ("Notice.b", Ty::Bool),
    ("NOTES", Ty::Str),
    ("A", Ty::Bool),
    ("B", Ty::Bool),
    ("S", Ty::Str),
    ("N", Ty::Int),
    ("T.b", Ty::Bool),
    ("T.s", Ty::Str),
    ("T.n", Ty::Int),
    ("U.s", Ty::Str),
];
/// (the last two: a text and the same text wrapped in quote characters of the other kind)
pub const STRINGS: [&str; 7] = ["on", "off", "red", "blue", "hi there", "yes", "'yes'"];

pub fn field_ty(f: &str) -> Ty {
    FIELDS.iter().find(|(n, _)| *n == f).map(|(_, t)| *t).unwrap_or(Ty::Str)
}

/// Switchable generator features. The ones that are known to trigger open findings are on in a
/// minority of cases only (DESIGN §4.4), so that the rest of the stream stays clean.
#[derive(Clone, Copy, Debug, Default)]
pub struct Feat {
    /// `==` / `!=` against integer literals (otherwise integer fields are only ordered)
    pub int_eq: bool,
    /// contains / startsWith / endsWith in rule conditions
    pub str_preds: bool,
    /// non-zero saliences
    pub salience: bool,
    /// dotted initial facts handed over as nested objects
    pub nested: bool,
    /// one initial fact whose type does not fit its field (oracle: Undefined, skipped)
    pub type_mixed: bool,
    /// a string value that contains a comparison-operator token (`a>=b`), as an initial fact and
    /// as the literal of the goal
    pub op_in_string: bool,
}

impl Feat {
    pub fn random(rng: &mut Rng) -> Feat {
        Feat {
            int_eq: rng.chance(1, 6),
            str_preds: rng.chance(1, 5),
            salience: rng.chance(1, 3),
            nested: rng.chance(1, 6),
            type_mixed: rng.chance(1, 40),
            op_in_string: rng.chance(1, 30),
        }
    }
}

pub fn random_lit(rng: &mut Rng, ty: Ty) -> Lit {
    match ty {
        Ty::Bool => Lit::B(rng.bool()),
        Ty::Str => Lit::S(rng.pick(&STRINGS).to_string()),
        Ty::Int => Lit::I(rng.range(-2, 9)),
    }
}

pub fn other_lit(rng: &mut Rng, l: &Lit) -> Lit {
    match l {
        Lit::B(b) => Lit::B(!b),
        Lit::S(s) => loop {
            let c = rng.pick(&STRINGS).to_string();
            if c != *s {
                return Lit::S(c);
            }
        },
        Lit::I(i) => {
            let d = rng.range(1, 3);
            Lit::I(if rng.bool() { i + d } else { i - d })
        }
    }
}

/// An atom on `field` that is TRUE when the field holds `v`.
pub fn sat_atom(rng: &mut Rng, field: &str, v: &Lit, feat: &Feat) -> Atom {
    let (op, lit) = match v {
        Lit::B(b) => {
            if rng.chance(1, 5) {
                (Op::Ne, Lit::B(!b))
            } else {
                (Op::Eq, Lit::B(*b))
            }
        }
        Lit::S(s) => {
            if feat.str_preds && rng.chance(1, 2) {
                let chars: Vec<char> = s.chars().collect();
                match rng.below(3) {
                    0 => (Op::StartsWith, Lit::S(chars[..1].iter().collect())),
                    1 => (Op::EndsWith, Lit::S(chars[chars.len() - 1..].iter().collect())),
                    _ => (Op::Contains, Lit::S(chars[chars.len() / 2..chars.len() / 2 + 1].iter().collect())),
                }
            } else if rng.chance(1, 6) {
                (Op::Ne, other_lit(rng, v))
            } else {
                (Op::Eq, v.clone())
            }
        }
        Lit::I(i) => {
            if feat.int_eq && rng.chance(1, 2) {
                if rng.chance(1, 4) {
                    (Op::Ne, other_lit(rng, v))
                } else {
                    (Op::Eq, v.clone())
                }
            } else {
                match rng.below(4) {
                    0 => (Op::Ge, Lit::I(i - rng.range(0, 2))),
                    1 => (Op::Gt, Lit::I(i - rng.range(1, 3))),
                    2 => (Op::Le, Lit::I(i + rng.range(0, 2))),
                    _ => (Op::Lt, Lit::I(i + rng.range(1, 3))),
                }
            }
        }
    };
    Atom { field: field.to_string(), op, lit }
}

/// An atom on `field` that is FALSE when the field holds `v`.
pub fn unsat_atom(rng: &mut Rng, field: &str, v: &Lit, feat: &Feat) -> Atom {
    let (op, lit) = match v {
        Lit::B(b) => (Op::Eq, Lit::B(!b)),
        Lit::S(_) => {
            if rng.chance(1, 6) {
                (Op::Ne, v.clone())
            } else {
                (Op::Eq, other_lit(rng, v))
            }
        }
        Lit::I(i) => {
            if feat.int_eq && rng.chance(1, 2) {
                if rng.chance(1, 3) {
                    (Op::Ne, v.clone())
                } else {
                    (Op::Eq, other_lit(rng, v))
                }
            } else {
                match rng.below(4) {
                    0 => (Op::Ge, Lit::I(i + rng.range(1, 3))),
                    1 => (Op::Gt, Lit::I(i + rng.range(0, 2))),
                    2 => (Op::Le, Lit::I(i - rng.range(1, 3))),
                    _ => (Op::Lt, Lit::I(i - rng.range(0, 2))),
                }
            }
        }
    };
    Atom { field: field.to_string(), op, lit }
}

pub fn random_atom(rng: &mut Rng, feat: &Feat) -> Atom {
    let (f, ty) = *rng.pick(&FIELDS);
    let v = random_lit(rng, ty);
    if rng.bool() {
        sat_atom(rng, f, &v, feat)
    } else {
        unsat_atom(rng, f, &v, feat)
    }
}

/// A generated KB together with what the generator intended (used to aim facts and goals).
#[derive(Clone, Debug)]
pub struct Plan {
    pub kb: Kb,
    pub feat: Feat,
    /// the intended chain: chain[0] is meant to be an initial fact, chain[i] is derived from chain[i-1]
    pub chain: Vec<(String, Lit)>,
    /// fields meant to be initial side facts
    pub side: Vec<(String, Lit)>,
    /// (feature op_in_string) a string field with a value containing an operator token
    pub hostile: Option<(String, Lit)>,
}

pub const HOSTILE_STRINGS: [&str; 4] = ["a>=b", "x<=y", "a>=", "<="];

pub fn has_op_token(l: &Lit) -> bool {
    matches!(l, Lit::S(s) if [">=", "<=", "==", "!="].iter().any(|t| s.contains(t)))
}

pub fn gen_plan(rng: &mut Rng, feat: Feat) -> Plan {
    let mut order: Vec<(&str, Ty)> = FIELDS.to_vec();
    rng.shuffle(&mut order);
    let len = *rng.pick(&[1usize, 1, 2, 2, 3, 3, 4, 4, 5, 6]);
    let mut chain: Vec<(String, Lit)> = order[..=len]
        .iter()
        .map(|(f, t)| (f.to_string(), random_lit(rng, *t)))
        .collect();
    if feat.op_in_string && rng.bool() {
        // a derived string node of the chain carries an operator token: the rule that concludes it
        // writes `F = "a>=b"` and the next rule's premise `F == "a>=b"` becomes a sub-goal text
        let strs: Vec<usize> = (1..=len).filter(|i| field_ty(&chain[*i].0) == Ty::Str).collect();
        if !strs.is_empty() {
            let i = *rng.pick(&strs);
            chain[i].1 = Lit::S(rng.pick(&HOSTILE_STRINGS).to_string());
        }
    }
    let side: Vec<(String, Lit)> = order[len + 1..]
        .iter()
        .map(|(f, t)| (f.to_string(), random_lit(rng, *t)))
        .collect();
    let mut rules: Vec<RuleG> = Vec::new();
    let push = |rules: &mut Vec<RuleG>, cond: Cond, sets: Vec<(String, Lit)>| {
        if rules.len() < 8 {
            let name = format!("R{}", rules.len());
            rules.push(RuleG { name, salience: 0, cond, sets });
        }
    };
    // the chain
    for i in 1..=len {
        let (pf, pv) = &chain[i - 1];
        let mut cond = Cond::Atom(sat_atom(rng, pf, pv, &feat));
        if rng.chance(3, 10) {
            // second premise: a side fact, or an earlier chain node (shared sub-goal)
            let extra = if !side.is_empty() && rng.bool() {
                let (sf, sv) = rng.pick(&side).clone();
                sat_atom(rng, &sf, &sv, &feat)
            } else {
                let (cf, cv) = chain[rng.below(i)].clone();
                sat_atom(rng, &cf, &cv, &feat)
            };
            cond = if rng.bool() {
                Cond::And(Box::new(cond), Box::new(Cond::Atom(extra)))
            } else {
                Cond::And(Box::new(Cond::Atom(extra)), Box::new(cond))
            };
        }
        if rng.chance(3, 20) {
            let alt = Cond::Atom(random_atom(rng, &feat));
            cond = if rng.bool() {
                Cond::Or(Box::new(cond), Box::new(alt))
            } else {
                Cond::Or(Box::new(alt), Box::new(cond))
            };
        }
        let mut sets = vec![chain[i].clone()];
        if !side.is_empty() && rng.chance(1, 8) {
            let (sf, _) = rng.pick(&side).clone();
            let v = random_lit(rng, field_ty(&sf));
            sets.push((sf, v));
        }
        push(&mut rules, cond, sets);
    }
    // distractors
    let extra = rng.below(5);
    for _ in 0..extra {
        let j = 1 + rng.below(len);
        match rng.below(7) {
            0 => {
                // wrong-value conclusion on a chain node, from a satisfiable premise
                let (pf, pv) = chain[rng.below(j)].clone();
                let cond = Cond::Atom(sat_atom(rng, &pf, &pv, &feat));
                let wrong = other_lit(rng, &chain[j].1);
                push(&mut rules, cond, vec![(chain[j].0.clone(), wrong)]);
            }
            1 => {
                // dead end: right conclusion from a premise that cannot be met
                let (pf, pv) = chain[rng.below(j)].clone();
                let cond = Cond::Atom(unsat_atom(rng, &pf, &pv, &feat));
                push(&mut rules, cond, vec![chain[j].clone()]);
            }
            2 => {
                // 2-cycle between two chain nodes
                let a = chain[rng.below(len + 1)].clone();
                let b = chain[rng.below(len + 1)].clone();
                let c1 = Cond::Atom(sat_atom(rng, &b.0, &b.1, &feat));
                push(&mut rules, c1, vec![a.clone()]);
                let c2 = Cond::Atom(sat_atom(rng, &a.0, &a.1, &feat));
                push(&mut rules, c2, vec![b]);
            }
            3 => {
                // alternative route to a chain node from a side fact
                if let Some((sf, sv)) = side.first().cloned() {
                    let cond = Cond::Atom(sat_atom(rng, &sf, &sv, &feat));
                    push(&mut rules, cond, vec![chain[j].clone()]);
                }
            }
            4 => {
                // a parent with two sub-goals that concludes the wrong value
                let a = chain[rng.below(j)].clone();
                let b = chain[rng.below(j)].clone();
                let cond = Cond::And(
                    Box::new(Cond::Atom(sat_atom(rng, &a.0, &a.1, &feat))),
                    Box::new(Cond::Atom(sat_atom(rng, &b.0, &b.1, &feat))),
                );
                let wrong = other_lit(rng, &chain[j].1);
                push(&mut rules, cond, vec![(chain[j].0.clone(), wrong)]);
            }
            5 => {
                // 3-cycle through a side field
                if let Some((sf, sv)) = side.last().cloned() {
                    let a = chain[j].clone();
                    let b = chain[j - 1].clone();
                    push(&mut rules, Cond::Atom(sat_atom(rng, &a.0, &a.1, &feat)), vec![(sf.clone(), sv.clone())]);
                    push(&mut rules, Cond::Atom(sat_atom(rng, &sf, &sv, &feat)), vec![b]);
                }
            }
            _ => {
                // anything
                let d = rng.below(3);
                let cond = random_cond(rng, &feat, d);
                let (f, t) = *rng.pick(&FIELDS);
                push(&mut rules, cond, vec![(f.to_string(), random_lit(rng, t))]);
            }
        }
    }
    rng.shuffle(&mut rules);
    for (i, r) in rules.iter_mut().enumerate() {
        r.name = format!("R{}", i);
        if feat.salience && rng.chance(1, 2) {
            // (negative saliences are mis-parsed as 0: C04's finding, kept out of here)
            r.salience = rng.range(1, 5) as i32;
        }
    }
    let hostile = if feat.op_in_string {
        // a string side field when there is one (no rule of the chain writes it)
        side.iter()
            .chain(chain.iter())
            .find(|(f, _)| field_ty(f) == Ty::Str)
            .map(|(f, _)| (f.clone(), Lit::S(rng.pick(&HOSTILE_STRINGS).to_string())))
    } else {
        None
    };
    Plan { kb: Kb { rules }, feat, chain, side, hostile }
}

pub fn random_cond(rng: &mut Rng, feat: &Feat, depth: usize) -> Cond {
    if depth == 0 {
        return Cond::Atom(random_atom(rng, feat));
    }
    let l = random_cond(rng, feat, depth - 1);
    let rd = rng.below(depth);
    let r = random_cond(rng, feat, rd);
    if rng.bool() {
        Cond::And(Box::new(l), Box::new(r))
    } else {
        Cond::Or(Box::new(l), Box::new(r))
    }
}

pub fn gen_facts(rng: &mut Rng, plan: &Plan) -> FactsG {
    let mut values: Vec<(String, Lit)> = Vec::new();
    if rng.chance(17, 20) {
        values.push(plan.chain[0].clone());
    } else if rng.chance(1, 2) {
        values.push((plan.chain[0].0.clone(), other_lit(rng, &plan.chain[0].1)));
    }
    for (f, v) in &plan.side {
        if rng.chance(7, 10) {
            if rng.chance(17, 20) {
                values.push((f.clone(), v.clone()));
            } else {
                values.push((f.clone(), other_lit(rng, v)));
            }
        }
    }
    // now and then a mid-chain node is already known (right or wrong value)
    if plan.chain.len() > 2 && rng.chance(1, 8) {
        let (f, v) = plan.chain[1 + rng.below(plan.chain.len() - 1)].clone();
        let v = if rng.chance(2, 3) { v } else { other_lit(rng, &v) };
        values.push((f, v));
    }
    if plan.feat.type_mixed && !values.is_empty() {
        let i = rng.below(values.len());
        values[i].1 = match &values[i].1 {
            Lit::I(i) => Lit::S(i.to_string()),
            Lit::B(b) => Lit::S(b.to_string()),
            Lit::S(_) => Lit::I(1),
        };
    }
    if let Some((f, v)) = &plan.hostile {
        if rng.chance(7, 10) {
            values.retain(|(k, _)| k != f);
            values.push((f.clone(), v.clone()));
        }
    }
    rng.shuffle(&mut values);
    FactsG { nested: plan.feat.nested, values }
}

pub fn gen_goal(rng: &mut Rng, plan: &Plan) -> Atom {
    // goals use the six comparison operators of the query grammar
    let goal_feat = Feat { str_preds: false, ..plan.feat };
    if let Some((f, v)) = &plan.hostile {
        if rng.chance(1, 3) {
            return Atom { field: f.clone(), op: if rng.chance(3, 4) { Op::Eq } else { Op::Ne }, lit: v.clone() };
        }
    }
    if rng.chance(13, 20) {
        let i = if rng.chance(2, 3) { plan.chain.len() - 1 } else { rng.below(plan.chain.len()) };
        let (f, v) = &plan.chain[i];
        if rng.chance(7, 10) {
            sat_atom(rng, f, v, &goal_feat)
        } else {
            unsat_atom(rng, f, v, &goal_feat)
        }
    } else {
        random_atom(rng, &goal_feat)
    }
}

pub fn gen_cfg(rng: &mut Rng, plan: &Plan, multi_solution: bool) -> Cfg {
    let strat = match rng.below(10) {
        0..=5 => Strat::Dfs,
        6 | 7 => Strat::Bfs,
        _ => Strat::Iter,
    };
    let len = plan.chain.len() - 1;
    let max_depth = if rng.bool() {
        rng.below(7)
    } else {
        (len as i64 + rng.range(-2, 1)).clamp(0, 6) as usize
    };
    Cfg {
        max_depth,
        strat,
        max_solutions: if multi_solution { 3 } else { 1 },
        memo: false,
    }
}

pub fn is_int_eq(a: &Atom) -> bool {
    matches!(a.lit, Lit::I(_)) && matches!(a.op, Op::Eq | Op::Ne)
}

/// all atoms of the case that the engine may turn into a goal pattern: the goal itself and
/// every rule-condition atom
pub fn has_int_eq(kb: &Kb, goal: &Atom) -> bool {
    if is_int_eq(goal) {
        return true;
    }
    kb.rules.iter().any(|r| {
        let mut v = Vec::new();
        r.cond.atoms(&mut v);
        v.into_iter().any(is_int_eq)
    })
}

// ------------------------------------------------------------------------------------------
// Shrinking of query cases (shared by C09 and C10a)
// ------------------------------------------------------------------------------------------

/// One-step simplifications, most drastic first.
pub fn query_simplifications(c: &QCase) -> Vec<QCase> {
    let mut out = Vec::new();
    if c.cfg.max_solutions > 1 {
        let mut n = c.clone();
        n.cfg.max_solutions = 1;
        out.push(n);
    }
    for i in 0..c.kb.rules.len() {
        let mut n = c.clone();
        n.kb.rules.remove(i);
        out.push(n);
    }
    for i in 0..c.facts.values.len() {
        let mut n = c.clone();
        n.facts.values.remove(i);
        out.push(n);
    }
    if c.facts.nested {
        let mut n = c.clone();
        n.facts.nested = false;
        out.push(n);
    }
    if c.kb.rules.iter().any(|r| r.salience != 0) {
        let mut n = c.clone();
        for r in &mut n.kb.rules {
            r.salience = 0;
        }
        out.push(n);
    }
    for i in 0..c.kb.rules.len() {
        for s in c.kb.rules[i].cond.simplifications() {
            let mut n = c.clone();
            n.kb.rules[i].cond = s;
            out.push(n);
        }
        if c.kb.rules[i].sets.len() > 1 {
            for k in 0..c.kb.rules[i].sets.len() {
                let mut n = c.clone();
                n.kb.rules[i].sets.remove(k);
                out.push(n);
            }
        }
    }
    // strip integer equalities (a hostile feature): `N == k` -> `N >= k`, `N != k` -> `N < k`
    let strip = |a: &mut Atom| -> bool {
        if is_int_eq(a) {
            a.op = if a.op == Op::Eq { Op::Ge } else { Op::Lt };
            true
        } else {
            false
        }
    };
    {
        let mut n = c.clone();
        let mut any = strip(&mut n.goal);
        for r in &mut n.kb.rules {
            let mut atoms = Vec::new();
            r.cond.atoms_mut(&mut atoms);
            for a in atoms {
                any |= strip(a);
            }
        }
        if any {
            out.push(n);
        }
    }
    {
        let mut n = c.clone();
        if strip(&mut n.goal) {
            out.push(n);
        }
    }
    for i in 0..c.kb.rules.len() {
        let mut n = c.clone();
        let mut atoms = Vec::new();
        n.kb.rules[i].cond.atoms_mut(&mut atoms);
        let mut any = false;
        for a in atoms {
            any |= strip(a);
        }
        if any {
            out.push(n);
        }
        // `N != k` may also be kept true by `N > k`
        let mut n = c.clone();
        let mut atoms = Vec::new();
        n.kb.rules[i].cond.atoms_mut(&mut atoms);
        let mut any = false;
        for a in atoms {
            if is_int_eq(a) && a.op == Op::Ne {
                a.op = Op::Gt;
                any = true;
            }
        }
        if any {
            out.push(n);
        }
    }
    // strip operator tokens from string values (a hostile feature): the same plain string everywhere
    {
        let plain = |l: &mut Lit| -> bool {
            if has_op_token(l) {
                *l = Lit::S("plain".to_string());
                true
            } else {
                false
            }
        };
        let mut n = c.clone();
        let mut any = plain(&mut n.goal.lit);
        for (_, v) in &mut n.facts.values {
            any |= plain(v);
        }
        for r in &mut n.kb.rules {
            let mut atoms = Vec::new();
            r.cond.atoms_mut(&mut atoms);
            for a in atoms {
                any |= plain(&mut a.lit);
            }
            for (_, v) in &mut r.sets {
                any |= plain(v);
            }
        }
        if any {
            out.push(n);
        }
    }
    // string predicates -> equality is not semantics preserving; leave them.
    if c.cfg.max_depth > 0 {
        let mut n = c.clone();
        n.cfg.max_depth -= 1;
        out.push(n);
    }
    out
}

